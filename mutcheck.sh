#!/bin/bash
# mutcheck.sh <patch.diff> <PID> [tier] — run a check against a scratch copy of /repo with a patch applied
# (evidence goes to a scratch directory; /repo and /verif/evidence are untouched)
set -e
P=$(readlink -f "$1"); PID=$2; TIER=${3:-quick}
D=$(mktemp -d /tmp/mutrepo.XXXXXX)
trap 'rm -rf "$D"' EXIT
git -C /repo archive HEAD | tar -x -C "$D"
(cd "$D" && git init -q . 2>/dev/null; patch -p1 -s < "$P")
cd /verif
VERIF_REPO="$D" VERIF_EVIDENCE_DIR="$D/.evidence" ./check "$PID" --tier "$TIER"
