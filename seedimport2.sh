#!/bin/bash
# seedimport2.sh <PID> — round-2 deliverables /tmp/seed2-<PID>/_seed/<n> -> /verif/seeded/<PID>-<n+2>/
PID=$1
for n in 1 2; do
  S=/tmp/seed2-$PID/_seed/$n
  [ -d "$S" ] || continue
  D=/verif/seeded/$PID-$((n+2))
  mkdir -p "$D"
  cp "$S/patch.diff" "$S/demo_test.py" "$S/notes.md" "$D/" 2>/dev/null
  echo "imported $D"
done
