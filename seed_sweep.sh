#!/bin/bash
# seed_sweep.sh [ids...] — apply every seeded change to a scratch worktree of /repo HEAD and run the property's quick check against it.
# Prints one line per seed: APPLY-FAILED / exit code of the check (1 = replayed VIOLATION = detected).
cd "$(dirname "$0")"
for d in ${@:-$(ls seeded)}; do
  P=$(python3 -c "import json;print(json.load(open('seeded/$d/meta.json'))['property'])")
  W=$(mktemp -d /tmp/seedsweep.XXXXXX); rmdir "$W"
  git -C /repo worktree add -q --detach "$W" HEAD || { echo "$d worktree failed"; continue; }
  if (cd "$W" && git apply "$OLDPWD/seeded/$d/patch.diff" 2>/dev/null); then
    VERIF_REPO="$W" VERIF_EVIDENCE_DIR="$W/.evidence" timeout 1500 ./check "$P" --tier quick > /tmp/seedsweep.log 2>&1; rc=$?
    echo "$d $P check_exit=$rc $(grep -m1 -o 'instance=[^w]*what=.\{0,80\}' /tmp/seedsweep.log)"
  else
    echo "$d $P APPLY-FAILED"
  fi
  git -C /repo worktree remove --force "$W" >/dev/null 2>&1; rm -rf "$W"
done
