"""seedmeta.py <seed-id> <first:true|false|-> <now:true|false|-> [strengthening text] — create/update seeded/<id>/meta.json"""
import json, os, sys
sid = sys.argv[1]
d = "/verif/seeded/%s" % sid
p = d + "/meta.json"
prop = sid.split("-")[0]
m = json.load(open(p)) if os.path.exists(p) else dict(
    property=prop, origin="independent sub-agent given only the property text and a scratch worktree (round 2: also told which mechanisms round 1 had used)",
    needs_to_manifest=open(d + "/notes.md").read()[:1500],
    confirmed=dict(how="/verif/evalseed.sh %s patch.diff demo_test.py (scratch worktree of /repo HEAD): demo passes without the patch, fails with it; full pytest suite passes with it (129 passed)" % prop))
def b(x):
    return None if x == "-" else x == "true"
if len(sys.argv) > 2 and sys.argv[2] != "-":
    m["detected_by_check_as_first_built"] = b(sys.argv[2])
if len(sys.argv) > 3 and sys.argv[3] != "-":
    m["detected_now"] = b(sys.argv[3])
    m["run"] = "./seed_sweep.sh %s -> check exit %s" % (sid, "1 with a replayed VIOLATION" if m["detected_now"] else "0 (missed)")
if len(sys.argv) > 4:
    m["strengthening"] = sys.argv[4]
m.setdefault("strengthening", None)
json.dump(m, open(p, "w"), indent=1)
