"""debug helper: run instances of one harness in-process, sequentially: dbg.py C20 quick [substring]"""
import os
import sys
import time

sys.path.insert(0, os.environ.get("VERIF_REPO", "/repo"))
sys.path.insert(0, os.path.dirname(os.path.abspath(__file__)))
sys.setrecursionlimit(20000)
sys.set_int_max_str_digits(0)  # z3's Python API renders wide bit-vector constants through str(int)
import framework  # noqa: E402

pid, tier = sys.argv[1].upper(), sys.argv[2]
flt = sys.argv[3] if len(sys.argv) > 3 else ""
mod, insts = framework._load(pid, tier)
if hasattr(mod, "prechecks") and not os.environ.get("NOPRE"):
    t = time.time()
    print("prechecks:", mod.prechecks(tier, 0), "%.1fs" % (time.time() - t))
for i, inst in enumerate(insts):
    if flt not in inst.name:
        continue
    t = time.time()
    todo = [[]]
    tot = dict(paths=0, queries=0, proves=0)
    while todo:
        r = framework.explore_task(pid, tier, i, todo.pop(), 0)
        todo.extend(r["new_tasks"])
        for k in tot:
            tot[k] += r[k]
        if r["error"] or r["violation"]:
            print("   ", r["error"] or r["violation"])
            for n in r["notes"][:3]:
                print(n)
            break
    print("%-50s %s validated=%d %.1fs" % (inst.name, tot, r["validated"], time.time() - t), flush=True)
