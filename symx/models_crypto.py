"""crypto stubs: uninterpreted functions with Ackermann-style consistency constraints"""
import z3

from . import values as symx
from .values import *  # noqa: F401,F403


def bv_of(x):
    """bytes-like -> single bit-vector (None for empty)"""
    cells = seq_cells(x, SymBytes)
    if not cells:
        return None
    es = [z3.BitVecVal(c, 8) if isinstance(c, int) else c for c in cells]
    return z3.Concat(*es) if len(es) > 1 else es[0]


def eq_bytes(a, b):
    ca, cb = seq_cells(a, SymBytes), seq_cells(b, SymBytes)
    if len(ca) != len(cb):
        return z3.BoolVal(False)
    r = SymBytes(ca).eq(SymBytes(cb))
    return z3.BoolVal(r) if isinstance(r, bool) else r.e


class UF:
    """table of applications of one uninterpreted function on byte strings"""

    def __init__(self, name, injective_prefix=0):
        self.name = name
        self.apps = []  # (inputs tuple, output SymBytes)
        self.calls = 0
        # optional assumption (A-HMAC): distinct inputs give outputs that differ within the first `injective_prefix`
        # bytes. Only ever switched on by a harness that reports it.
        self.injective_prefix = injective_prefix

    def apply(self, inputs, outlen):
        ctx = Ctx.cur
        self.calls += 1
        out = sym_bytes(ctx.fresh(self.name), outlen)
        for ins2, out2 in self.apps:
            if len(ins2) != len(inputs) or len(out2.cells) != outlen:
                continue
            if any(len(seq_cells(a, SymBytes)) != len(seq_cells(b, SymBytes)) for a, b in zip(inputs, ins2)):
                if self.injective_prefix:
                    k = self.injective_prefix
                    ctx.add_c(z3.Not(eq_bytes(SymBytes(out.cells[:k]), SymBytes(out2.cells[:k]))))
                continue
            same = z3.And(*[eq_bytes(a, b) for a, b in zip(inputs, ins2)])
            ctx.add_c(z3.Implies(same, eq_bytes(out, out2)))
            if self.injective_prefix:
                k = self.injective_prefix
                ctx.add_c(z3.Implies(z3.Not(same), z3.Not(eq_bytes(SymBytes(out.cells[:k]), SymBytes(out2.cells[:k])))))
        self.apps.append((tuple(inputs), out))
        return out


class CryptoEnv:
    """one per path"""

    def __init__(self, a_hmac=False):
        self.hmac = UF("hmac", 16 if a_hmac else 0)
        self.sha = UF("sha256")
        self.enc = []  # (key, iv, pt, ct)
        self.dec_calls = 0
        self.rsa = []  # (modulus id, pt, ct)
        self.rsa_dec_calls = 0
        self.rsa_other = lambda ct, sentinel: sentinel
        self.assume_hmac_collision_free = False

    def aes_encrypt(self, key, iv, pt):
        ctx = Ctx.cur
        n = len(seq_cells(pt, SymBytes))
        if n % 16:
            raise ValueError("Data must be padded to 16 byte boundary in CBC mode")
        ct = sym_bytes(ctx.fresh("ct"), n)
        for k2, iv2, pt2, ct2 in self.enc:
            if len(ct2.cells) != n:
                continue
            samek = z3.And(eq_bytes(key, k2), eq_bytes(iv, iv2))
            ctx.add_c(z3.Implies(samek, eq_bytes(pt, pt2) == eq_bytes(ct, ct2)))  # permutation per (key, iv)
        self.enc.append((key, iv, pt, ct))
        return ct

    def aes_decrypt(self, key, iv, ct):
        ctx = Ctx.cur
        self.dec_calls += 1
        n = len(seq_cells(ct, SymBytes))
        if n % 16:
            raise ValueError("Data must be padded to 16 byte boundary in CBC mode")
        pt = sym_bytes(ctx.fresh("pt"), n)
        for k2, iv2, pt2, ct2 in self.enc:
            if len(ct2.cells) != n:
                continue
            samek = z3.And(eq_bytes(key, k2), eq_bytes(iv, iv2))
            ctx.add_c(z3.Implies(samek, eq_bytes(pt, pt2) == eq_bytes(ct, ct2)))
        self.enc.append((key, iv, pt, ct))
        return pt


ENV = None


class AESShim:
    MODE_CBC = 2
    block_size = 16

    class _Cipher:
        def __init__(self, key, iv):
            self.key, self.iv = key, iv

        def encrypt(self, data):
            return ENV.aes_encrypt(self.key, self.iv, data)

        def decrypt(self, data):
            return ENV.aes_decrypt(self.key, self.iv, data)

    @staticmethod
    def new(key, mode, iv=None, **kw):
        if key is None or iv is None:
            raise TypeError("key/iv must be bytes")
        if m_len(key) not in (16, 24, 32):
            raise ValueError("Incorrect AES key length")
        if m_len(iv) != 16:
            raise ValueError("Incorrect IV length")
        return AESShim._Cipher(key, iv)


class HmacShim:
    class _H:
        def __init__(self, key, msg):
            self.key, self.msg = key, msg

        def digest(self):
            out = ENV.hmac.apply([self.key, self.msg], 32)
            return out

    @staticmethod
    def new(key, msg=None, digestmod=""):
        return HmacShim._H(key, msg)


class HashlibShim:
    __symx_model__ = True

    class _S:
        __symx_model__ = True

        def __init__(self, data):
            self.data = data

        def digest(self):
            return ENV.sha.apply([self.data], 32)

        def hexdigest(self):
            return ENV.sha.apply([self.data], 32).hex()

    @staticmethod
    def sha256(data=b""):
        return HashlibShim._S(data)


for obj in (AESShim.new, HmacShim.new, HashlibShim.sha256):
    obj.__symx_model__ = True
for cls in (AESShim, AESShim._Cipher, HmacShim, HmacShim._H):
    cls.__symx_model__ = True


def install():
    from .interp import DEFAULT_OVERRIDES

    DEFAULT_OVERRIDES.update(AES=AESShim, hmac=HmacShim, hashlib=HashlibShim)


def new_env(**kw):
    global ENV
    ENV = CryptoEnv(**kw)
    return ENV


# ----------------------------------------------------------------------------------------------------------------------
# RSA PKCS#1 v1.5 (contract only)
# ----------------------------------------------------------------------------------------------------------------------


class FakeRSAKey:
    """stands for an RSA key of k bytes; public and private halves share `n`"""

    __symx_model__ = True

    def __init__(self, k=128, n=0xC0FFEE, private=True):
        self.k = k
        self.n = n
        self.private = private

    def size_in_bytes(self):
        return self.k

    def size_in_bits(self):
        return self.k * 8

    def has_private(self):
        return self.private

    def public_key(self):
        return FakeRSAKey(self.k, self.n, False)


class PKCS1Shim:
    """PKCS1_v1_5.new(key).encrypt/decrypt contract:
    encrypt(pt): ValueError if len(pt) > k-11, else a fresh ciphertext of k bytes;
    decrypt(ct, sentinel): ValueError if len(ct) != k; the plaintext for a ciphertext produced by encrypt under the
    same modulus; for ANY other blob either the sentinel or an arbitrary byte string of length 0..k-11 — the harness
    chooses which through ENV.rsa_other (this is what pycryptodome 3.23 does: it returns b'' for garbage, measured)."""

    __symx_model__ = True

    class _Cipher:
        __symx_model__ = True

        def __init__(self, key):
            if not isinstance(key, FakeRSAKey):  # a real (concrete) RSA key object: only its size and modulus matter to the contract
                key = FakeRSAKey(key.size_in_bytes(), key.n, key.has_private())
            self.key = key

        def encrypt(self, pt):
            n = len(seq_cells(pt, SymBytes))
            if n > self.key.k - 11:
                raise ValueError("Plaintext is too long.")
            ct = sym_bytes(Ctx.cur.fresh("rsa_ct"), self.key.k)
            ENV.rsa.append((self.key.n, pt, ct))
            return ct

        def decrypt(self, ct, sentinel, expected_pt_len=0):
            cells = seq_cells(ct, SymBytes)
            if cells is None or len(cells) != self.key.k:
                raise ValueError("Ciphertext with incorrect length (not %d bytes)" % self.key.k)
            ENV.rsa_dec_calls += 1
            for n2, pt2, ct2 in ENV.rsa:
                if n2 == self.key.n and truth(SymBytes(cells).eq(ct2)):
                    return pt2
            return ENV.rsa_other(ct, sentinel)

    @staticmethod
    def new(key, randfunc=None):
        return PKCS1Shim._Cipher(key)


PKCS1Shim.new.__symx_model__ = True


def install_rsa():
    from .interp import DEFAULT_OVERRIDES

    DEFAULT_OVERRIDES.update(PKCS1_v1_5=PKCS1Shim)
