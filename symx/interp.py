r"""
symx.interp: tree-walking interpreter for the Python subset used by the repository. The functions it runs are
located in the *current source file* of the imported module (ast), never transcribed.
"""
from __future__ import annotations

import ast
import builtins
import functools
import sys
import types

import z3

from .values import *  # noqa: F401,F403
from . import values as V

SUBSCRIPT_HOOKS = []  # f(interp, obj, idx) -> NOT_HANDLED | result
SETITEM_HOOKS = []  # f(interp, obj, idx, v) -> NOT_HANDLED | None
CALL_HOOKS = []  # f(interp, fn, args, kwargs) -> NOT_HANDLED | result
GETATTR_HOOKS = []  # f(interp, obj, name) -> NOT_HANDLED | result

# ----------------------------------------------------------------------------------------------------------------------
# interpreter
# ----------------------------------------------------------------------------------------------------------------------


class SymStopIteration(Exception):
    """StopIteration raised by interpreted code: a real StopIteration cannot travel through the generator-based
    statement interpreter (PEP 479), so it is carried by this surrogate and matched by `except StopIteration`"""


class ReturnSig(BaseException):
    def __init__(self, v):
        self.v = v


class BreakSig(BaseException):
    pass


class ContinueSig(BaseException):
    pass


class Yield:
    def __init__(self, v):
        self.v = v


BINOPS = {
    ast.Add: "+",
    ast.Sub: "-",
    ast.Mult: "*",
    ast.FloorDiv: "//",
    ast.Mod: "%",
    ast.BitAnd: "&",
    ast.BitOr: "|",
    ast.BitXor: "^",
    ast.LShift: "<<",
    ast.RShift: ">>",
    ast.Div: "/",
    ast.Pow: "**",
}
CMPOPS = {
    ast.Eq: "==",
    ast.NotEq: "!=",
    ast.Lt: "<",
    ast.LtE: "<=",
    ast.Gt: ">",
    ast.GtE: ">=",
    ast.Is: "is",
    ast.IsNot: "is not",
    ast.In: "in",
    ast.NotIn: "not in",
}


def _has_own_yield(fn_node):
    """does the function body contain a yield of its own (yields of nested functions / lambdas do not count)?"""
    stack = list(fn_node.body)
    while stack:
        n = stack.pop()
        if isinstance(n, (ast.Yield, ast.YieldFrom)):
            return True
        if isinstance(n, (ast.FunctionDef, ast.AsyncFunctionDef, ast.Lambda, ast.ClassDef)):
            continue
        stack.extend(ast.iter_child_nodes(n))
    return False


class IFunc:
    """interpreted function (closure)"""

    def __init__(self, node, globs, closure, interp, qualname=None, defaults=None, kwdefaults=None):
        self.node = node
        self.globs = globs
        self.closure = closure
        self.interp = interp
        self.qualname = qualname or node.name
        self.defaults = defaults or []
        self.kwdefaults = kwdefaults or {}
        self.is_gen = _has_own_yield(node) if not isinstance(node, ast.Lambda) else False

    def __repr__(self):
        return "<IFunc %s>" % self.qualname


class IGenCM:
    """context manager made by @contextmanager around an interpreted repo generator"""

    def __init__(self, gen):
        self.gen = gen


DEFAULT_OVERRIDES = {"io": IoShim, "int": IntShim}  # name -> shim, visible in every interpreted repo namespace (filled by the model modules)


class BoundI:
    def __init__(self, f, selfobj):
        self.f = f
        self.selfobj = selfobj


class Env:
    def __init__(self, globs, parent=None):
        self.vars = {}
        self.globs = globs
        self.parent = parent

    def lookup(self, name):
        e = self
        while e is not None:
            if name in e.vars:
                return e.vars[name]
            e = e.parent
        if name in self.globs.get("__symx_overrides__", {}):
            return self.globs["__symx_overrides__"][name]
        if name in self.globs:
            return self.globs[name]
        if name in BUILTIN_MODELS:
            return BUILTIN_MODELS[name]
        if hasattr(builtins, name):
            return getattr(builtins, name)
        raise NameError(name)


class SuperProxy:
    def __init__(self, cls, obj, interp):
        self.cls, self.obj, self.interp = cls, obj, interp


class Interp:
    cur = None
    MAX_LOOP = 400
    MAX_FOR = 100000

    def __init__(self, module_prefixes=("dissect.cobaltstrike",)):
        self.module_prefixes = module_prefixes
        self.fcache = {}
        self.lifted = {}
        self.overrides = {}  # (module name) -> {name: value}
        self.global_overrides = {}  # name -> value, applied to every repo module namespace
        self.encoded = set()
        self.stubs = {}  # real function object -> replacement callable (lemma-justified cuts, nondeterministic stubs)
        self.depth = 0
        self.cheap_fmt = 0
        self.native_stubs = {}
        self._globs = {}
        Interp.cur = self

    # -- source lookup -------------------------------------------------------------------------------------------------
    def module_ast(self, modname):
        if modname not in self.fcache:
            mod = sys.modules[modname]
            src = open(mod.__file__).read()
            tree = ast.parse(src)
            index = {}
            for n in ast.walk(tree):
                if isinstance(n, (ast.FunctionDef, ast.Lambda)):
                    lines = {n.lineno}
                    if isinstance(n, ast.FunctionDef):
                        lines |= {d.lineno for d in n.decorator_list}
                    for ln in lines:
                        index.setdefault(ln, []).append(n)
            self.fcache[modname] = index
        return self.fcache[modname]

    def globs_for(self, modname):
        if modname in self._globs:
            return self._globs[modname]
        g = dict(sys.modules[modname].__dict__)
        ov = dict(DEFAULT_OVERRIDES)
        ov.update(self.global_overrides)
        ov.update(self.overrides.get(modname, {}))
        g["__symx_overrides__"] = ov
        self._globs[modname] = g
        return g

    def set_override(self, modname, name, value):
        """(re)bind a global name as seen by interpreted code of one repo module (e.g. `io` in utils -> shim with a
        small DEFAULT_BUFFER_SIZE); takes effect immediately, also for already lifted functions"""
        self.overrides.setdefault(modname, {})[name] = value
        self.globs_for(modname)["__symx_overrides__"][name] = value

    def clear_override(self, modname, name):
        self.overrides.get(modname, {}).pop(name, None)
        ov = self.globs_for(modname)["__symx_overrides__"]
        if name in DEFAULT_OVERRIDES:
            ov[name] = DEFAULT_OVERRIDES[name]
        else:
            ov.pop(name, None)

    def lift_function(self, f):
        """real python function object -> IFunc (located by line number in the module's current source)"""
        if f in self.lifted:
            return self.lifted[f]
        mod = f.__module__
        idx = self.module_ast(mod)
        code = f.__code__
        cands = idx.get(code.co_firstlineno, [])
        if f.__name__ == "<lambda>":
            cands = [n for n in cands if isinstance(n, ast.Lambda)]
            if len(cands) > 1:
                def same(n):
                    c = compile(ast.Expression(n), "<x>", "eval").co_consts[0]
                    return c.co_code == code.co_code and c.co_names == code.co_names
                cands = [n for n in cands if same(n)]
        else:
            cands = [n for n in cands if isinstance(n, ast.FunctionDef) and n.name == f.__name__]
        if len(cands) != 1:
            raise Unsupported("cannot locate source for %s.%s (%d candidates)" % (mod, f.__qualname__, len(cands)))
        node = cands[0]
        self.encoded.add("%s.%s" % (mod, f.__qualname__))
        globs = self.globs_for(mod)
        env = Env(globs)
        if f.__closure__:
            for name, cell in zip(code.co_freevars, f.__closure__):
                env.vars[name] = cell.cell_contents
        defaults = list(f.__defaults__ or [])
        kwdefaults = dict(f.__kwdefaults__ or {})
        fn = IFunc(node, globs, env, self, f.__qualname__, defaults, kwdefaults)
        owner = sys.modules[mod]
        try:
            for part in f.__qualname__.split(".")[:-1]:
                owner = getattr(owner, part)
            fn.owner = owner if isinstance(owner, type) else None
        except AttributeError:
            fn.owner = None
        self.lifted[f] = fn
        return fn

    def is_repo_func(self, f):
        if not isinstance(f, types.FunctionType) or not (f.__module__ or "").startswith(self.module_prefixes):
            return False
        # methods generated by @dataclass (__init__/__eq__/__repr__ compiled from a string) have no source in the module:
        # they are value-agnostic field plumbing and run natively
        return f.__code__.co_filename != "<string>"

    # -- calls ---------------------------------------------------------------------------------------------------------
    def call(self, f, args, kwargs=None):
        kwargs = kwargs or {}
        if is_native() and not isinstance(f, (BoundI, IFunc)):
            return self.native_call(f, args, kwargs)
        if isinstance(f, BoundI):
            return self.call_ifunc(f.f, [f.selfobj] + list(args), kwargs)
        if isinstance(f, IFunc):
            return self.call_ifunc(f, args, kwargs)
        try:
            st = self.stubs.get(f)
        except TypeError:
            st = None
        if st is not None:
            return st(*args, **kwargs)
        if isinstance(f, types.MethodType):
            try:
                st = self.stubs.get(f.__func__)
            except TypeError:
                st = None
            if st is not None:
                return st(f.__self__, *args, **kwargs)
        if isinstance(f, functools.partial):
            kw = dict(f.keywords)
            kw.update(kwargs)
            return self.call(f.func, list(f.args) + list(args), kw)
        for h in CALL_HOOKS:
            r = h(self, f, args, kwargs)
            if r is not NOT_HANDLED:
                return r
        if isinstance(f, types.MethodType) and self.is_repo_func(f.__func__):
            return self.call_ifunc(self.lift_function(f.__func__), [f.__self__] + list(args), kwargs)
        if self.is_repo_func(f):
            w = getattr(f, "__wrapped__", None)
            if w is not None and self.is_repo_func(w) and f.__code__.co_filename.endswith("contextlib.py"):
                # @contextmanager around a repo generator: interpret the generator, drive it from x_With
                return IGenCM(self.call_ifunc(self.lift_function(w), args, kwargs))
            return self.call_ifunc(self.lift_function(f), args, kwargs)
        if isinstance(f, type) and self.is_repo_class(f):
            return self.construct(f, args, kwargs)
        if getattr(f, "__symx_model__", False) or (getattr(f, "__module__", None) or "").startswith("symx"):
            return f(*args, **kwargs)
        selfobj = getattr(f, "__self__", None)
        if selfobj is not None and not isinstance(selfobj, types.ModuleType):
            if is_sym(selfobj) or getattr(type(selfobj), "__symx_model__", False) or (
                type(selfobj).__module__ or ""
            ).startswith("symx"):
                return f(*args, **kwargs)
        import logging as _logging

        if isinstance(selfobj, _logging.Logger):
            if f.__name__ in ("debug", "info", "warning", "error", "exception", "critical", "log"):
                return None  # logging is a no-op stub
            return f(*[unwrap(a) for a in args], **{k: unwrap(v) for k, v in kwargs.items()})
        if getattr(f, "__module__", None) == "logging":
            return None
        # native call: only with concrete arguments
        args2 = [self.as_native_callable(unwrap(a)) for a in args]
        kwargs2 = {k: self.as_native_callable(unwrap(v)) for k, v in kwargs.items()}
        if not all(deep_concrete(a) for a in args2) or not all(deep_concrete(v) for v in kwargs2.values()):
            # container plumbing that does not inspect values is fine
            if isinstance(selfobj, (list, dict, set)) and f.__name__ in (
                "append", "extend", "insert", "pop", "get", "items", "values", "keys", "setdefault", "update", "copy",
                "clear", "reverse",
            ):
                if isinstance(selfobj, dict) and f.__name__ == "get" and args and not deep_concrete(unwrap(args[0])):
                    from .models_lib import sym_dict_get

                    return sym_dict_get(selfobj, *args)
                if isinstance(selfobj, dict) and f.__name__ in ("get", "setdefault", "pop") and args and is_sym(args[0]):
                    raise Unsupported("dict.%s with symbolic key" % f.__name__)
                return f(*args, **kwargs)
            if f is types.MappingProxyType:
                return f(*args)
            if isinstance(f, type) and issubclass(f, BaseException):
                return f(*["<symbolic>" if not deep_concrete(unwrap(a)) else unwrap(a) for a in args])
            if f in (list, tuple, enumerate, zip, reversed) or (
                f is dict and all(isinstance(a, dict) and all(deep_concrete(k) for k in a) for a in args)
            ):
                args = [list(m_iter(a)) if isinstance(a, SymSeq) else a for a in args]
                return f(*args, **kwargs)
            if isinstance(f, type) and issubclass(f, tuple) and hasattr(f, "_fields"):
                return f(*args, **kwargs)  # NamedTuple construction
            if getattr(f, "__name__", "") in ("_replace", "_asdict", "_make") and hasattr(selfobj, "_fields"):
                return f(*args, **kwargs)
            raise Unsupported("native call %r with symbolic arguments" % (f,))
        if isinstance(f, type) and issubclass(f, BaseException):
            return f(*args2, **kwargs2)
        return f(*args2, **kwargs2)

    def native_call(self, f, args, kwargs):
        """native mode (replay / path validation): the real function under CPython, no interpreter, no models except
        the explicit `native_stubs` of the harness"""
        st = None
        try:
            st = self.native_stubs.get(f)
        except TypeError:
            pass
        if st is not None:
            f = st
        return f(*[to_native(a) for a in args], **{k: to_native(v) for k, v in kwargs.items()})

    def as_native_callable(self, v):
        if isinstance(v, (IFunc, BoundI)):
            return lambda *a, **k: self.call(v, list(a), k)
        return v

    def is_repo_class(self, c):
        return (getattr(c, "__module__", "") or "").startswith(self.module_prefixes)

    def find_in_mro(self, cls, name):
        for klass in cls.__mro__:
            if name in klass.__dict__:
                return klass.__dict__[name]
        return None

    def construct(self, cls, args, kwargs):
        """instantiate a repo class: real __new__ (object/NamedTuple/...), interpreted __init__"""
        if issubclass(cls, tuple) and hasattr(cls, "_fields"):
            return cls(*args, **kwargs)
        if issubclass(cls, BaseException):
            init = self.find_in_mro(cls, "__init__")
            if not (isinstance(init, types.FunctionType) and self.is_repo_func(init)):
                return cls(*[unwrap(a) if deep_concrete(unwrap(a)) else "<symbolic>" for a in args])
        import enum as _enum

        if issubclass(cls, _enum.Enum):
            if len(args) == 1 and isinstance(args[0], SymInt):
                # Enum(value) lookup with a symbolic value: fork over the member values; no member -> ValueError
                for k in sorted({m.value for m in cls.__members__.values() if isinstance(m.value, int)}):
                    if truth(SymInt.cmp("==", args[0], k)):
                        return cls(k)
                raise ValueError("<symbolic> is not a valid %s" % cls.__name__)
            return cls(*[unwrap(a) for a in args])
        new = self.find_in_mro(cls, "__new__")
        if isinstance(new, staticmethod):
            new = new.__func__
        if isinstance(new, types.FunctionType) and self.is_repo_func(new):
            obj = self.call_ifunc(self.lift_function(new), [cls] + list(args), kwargs)
        else:
            try:
                obj = cls.__new__(cls)
            except TypeError:
                obj = cls.__new__(cls, *[unwrap(a) for a in args])
        if isinstance(obj, cls):
            init = self.find_in_mro(cls, "__init__")
            if isinstance(init, types.FunctionType) and self.is_repo_func(init):
                self.call_ifunc(self.lift_function(init), [obj] + list(args), kwargs)
            elif init is not object.__init__ and init is not None:
                if getattr(getattr(init, "__code__", None), "co_filename", "") == "<string>" and hasattr(cls, "__dataclass_fields__"):
                    init(obj, *args, **kwargs)  # dataclass-generated __init__: plain field assignment
                else:
                    init(obj, *[unwrap(a) for a in args], **{k: unwrap(v) for k, v in kwargs.items()})
        return obj

    def bind(self, fn: IFunc, args, kwargs):
        a = fn.node.args
        env = Env(fn.globs, fn.closure)
        params = [p.arg for p in a.posonlyargs + a.args]
        args = list(args)
        nd = len(fn.defaults)
        for i, p in enumerate(params):
            if i < len(args):
                env.vars[p] = args[i]
            elif p in kwargs:
                env.vars[p] = kwargs.pop(p)
            else:
                di = i - (len(params) - nd)
                if di < 0:
                    raise TypeError("missing argument %s for %s" % (p, fn.qualname))
                env.vars[p] = fn.defaults[di]
        if len(args) > len(params):
            if a.vararg:
                env.vars[a.vararg.arg] = tuple(args[len(params) :])
            else:
                raise TypeError("too many arguments for %s" % fn.qualname)
        elif a.vararg:
            env.vars[a.vararg.arg] = ()
        for p in a.kwonlyargs:
            if p.arg in kwargs:
                env.vars[p.arg] = kwargs.pop(p.arg)
            elif p.arg in fn.kwdefaults:
                env.vars[p.arg] = fn.kwdefaults[p.arg]
            else:
                raise TypeError("missing kwonly %s" % p.arg)
        if a.kwarg:
            env.vars[a.kwarg.arg] = dict(kwargs)
        elif kwargs:
            raise TypeError("unexpected kwargs %r for %s" % (list(kwargs), fn.qualname))
        return env

    def call_ifunc(self, fn: IFunc, args, kwargs):
        env = self.bind(fn, args, dict(kwargs))
        if getattr(fn, "owner", None) is not None and args:
            env.vars["__class__"] = fn.owner
            env.vars["__symx_self__"] = args[0]
        if isinstance(fn.node, ast.Lambda):
            return self.ev(fn.node.body, env)
        if fn.is_gen:
            return self.run_gen(fn, env)
        try:
            for _ in self.exec_block(fn.node.body, env):
                raise Unsupported("yield in non-generator")
        except ReturnSig as r:
            return r.v
        return None

    def run_gen(self, fn, env):
        try:
            for y in self.exec_block(fn.node.body, env):
                yield y.v
        except ReturnSig:
            return

    # -- statements (generators, to support yield) --------------------------------------------------------------------------
    def exec_block(self, body, env):
        for st in body:
            yield from self.exec(st, env)

    def exec(self, st, env):
        m = getattr(self, "x_" + type(st).__name__, None)
        if m is None:
            raise Unsupported("statement " + type(st).__name__)
        r = m(st, env)
        if r is not None:
            yield from r

    def x_Expr(self, st, env):
        if isinstance(st.value, ast.Yield):
            v = self.ev(st.value.value, env) if st.value.value else None
            return iter([Yield(v)])
        if isinstance(st.value, ast.YieldFrom):
            it = self.ev(st.value.value, env)
            return (Yield(v) for v in m_iter(it))
        self.ev(st.value, env)

    def x_Pass(self, st, env):
        pass

    def x_Return(self, st, env):
        raise ReturnSig(self.ev(st.value, env) if st.value else None)

    def x_Break(self, st, env):
        raise BreakSig()

    def x_Continue(self, st, env):
        raise ContinueSig()

    def x_Assign(self, st, env):
        v = self.ev(st.value, env)
        for t in st.targets:
            self.assign(t, v, env)

    def x_AnnAssign(self, st, env):
        if st.value is not None:
            self.assign(st.target, self.ev(st.value, env), env)

    def x_AugAssign(self, st, env):
        cur = self.ev(st.target, env)
        v = self.ev(st.value, env)
        op = BINOPS[type(st.op)]
        if isinstance(cur, list) and op == "+":
            cur.extend(v)
            r = cur
        else:
            r = binop(op, cur, v)
        self.assign(st.target, r, env)

    def assign(self, t, v, env):
        if isinstance(t, ast.Name):
            if t.id in getattr(env, "nonlocals", ()):
                e = env.parent
                while e is not None:
                    if t.id in e.vars:
                        e.vars[t.id] = v
                        return
                    e = e.parent
                raise NameError(t.id)
            env.vars[t.id] = v
        elif isinstance(t, (ast.Tuple, ast.List)):
            vals = list(m_iter(v))
            stars = [i for i, x in enumerate(t.elts) if isinstance(x, ast.Starred)]
            if stars:
                i = stars[0]
                after = len(t.elts) - i - 1
                if len(vals) < len(t.elts) - 1:
                    raise ValueError("not enough values to unpack")
                for tt, vv in zip(t.elts[:i], vals[:i]):
                    self.assign(tt, vv, env)
                self.assign(t.elts[i].value, vals[i : len(vals) - after], env)
                for tt, vv in zip(t.elts[i + 1 :], vals[len(vals) - after :]):
                    self.assign(tt, vv, env)
                return
            if len(vals) != len(t.elts):
                raise ValueError(
                    "not enough values to unpack" if len(vals) < len(t.elts) else "too many values to unpack"
                )
            for tt, vv in zip(t.elts, vals):
                self.assign(tt, vv, env)
        elif isinstance(t, ast.Attribute):
            obj = self.ev(t.value, env)
            self.setattr(obj, t.attr, v)
        elif isinstance(t, ast.Subscript):
            obj = self.ev(t.value, env)
            idx = self.ev_index(t.slice, env)
            if self.is_repo_class(type(obj)):
                si = self.find_in_mro(type(obj), "__setitem__")
                if isinstance(si, types.FunctionType) and self.is_repo_func(si):
                    self.call_ifunc(self.lift_function(si), [obj, idx, v], {})
                    return
            for h in SETITEM_HOOKS:
                if h(self, obj, idx, v) is not NOT_HANDLED:
                    return
            idx = unwrap(idx)
            if getattr(type(obj), "__symx_model__", False):
                obj[idx] = v
                return
            if isinstance(obj, dict) and not deep_concrete(idx):
                raise Unsupported("dict store with symbolic key")
            if isinstance(obj, list) and isinstance(idx, SymInt):
                idx = concretize(idx)
            obj[idx] = v
        else:
            raise Unsupported("assign target")

    def setattr(self, obj, name, v):
        cls = type(obj)
        if self.is_repo_class(cls):
            attr = self.find_in_mro(cls, name)
            if isinstance(attr, property) and attr.fset is not None and self.is_repo_func(attr.fset):
                self.call_ifunc(self.lift_function(attr.fset), [obj, v], {})
                return
            sa = self.find_in_mro(cls, "__setattr__")
            if isinstance(sa, types.FunctionType) and self.is_repo_func(sa):
                self.call_ifunc(self.lift_function(sa), [obj, name, v], {})
                return
        setattr(obj, name, v)

    def x_If(self, st, env):
        if truth(self.ev(st.test, env)):
            return self.exec_block(st.body, env)
        return self.exec_block(st.orelse, env)

    def x_While(self, st, env):
        n = 0
        broke = False
        while truth(self.ev(st.test, env)):
            n += 1
            if n > self.MAX_LOOP:
                raise UnwindLimit("while loop at line %d" % st.lineno)
            try:
                yield from self.exec_block(st.body, env)
            except BreakSig:
                broke = True
                break
            except ContinueSig:
                continue
        if not broke:
            yield from self.exec_block(st.orelse, env)

    def x_For(self, st, env):
        it = self.ev(st.iter, env)
        broke = False
        n = 0
        for v in m_iter(it):
            n += 1
            if n > self.MAX_FOR:
                raise UnwindLimit("for loop at line %d" % st.lineno)
            self.assign(st.target, v, env)
            try:
                yield from self.exec_block(st.body, env)
            except BreakSig:
                broke = True
                break
            except ContinueSig:
                continue
        if not broke:
            yield from self.exec_block(st.orelse, env)

    def x_Try(self, st, env):
        try:
            try:
                yield from self.exec_block(st.body, env)
            except Exception as e:
                for h in st.handlers:
                    if h.type is None:
                        ok = True
                    else:
                        et = self.ev(h.type, env)
                        ok = isinstance(e, et)
                        if not ok and isinstance(e, SymStopIteration):
                            ets = et if isinstance(et, tuple) else (et,)
                            ok = any(t is StopIteration for t in ets)
                    if ok:
                        if h.name:
                            env.vars[h.name] = e
                        yield from self.exec_block(h.body, env)
                        break
                else:
                    raise
            else:
                yield from self.exec_block(st.orelse, env)
        finally:
            for _ in self.exec_block(st.finalbody, env):
                raise Unsupported("yield in finally")

    def x_Raise(self, st, env):
        if st.exc is None:
            raise
        # the text of an exception message is no observable of any property: symbolic values inside f-strings /
        # format() are rendered as a placeholder instead of forking over their renderings
        self.cheap_fmt += 1
        try:
            e = self.ev(st.exc, env)
        finally:
            self.cheap_fmt -= 1
        if isinstance(e, type):
            e = e()
        if isinstance(e, StopIteration):
            raise SymStopIteration(*e.args)
        raise e

    def x_Assert(self, st, env):
        if not truth(self.ev(st.test, env)):
            raise AssertionError()

    def x_FunctionDef(self, st, env):
        defaults = [self.ev(d, env) for d in st.args.defaults]
        f = IFunc(st, env.globs, env, self, st.name, defaults)
        env.vars[st.name] = f

    def x_Import(self, st, env):
        import importlib

        for a in st.names:
            m = importlib.import_module(a.name)
            if a.asname:
                env.vars[a.asname] = m
            else:
                env.vars[a.name.split(".")[0]] = importlib.import_module(a.name.split(".")[0])

    def x_ImportFrom(self, st, env):
        import importlib

        if st.level:
            raise Unsupported("relative import inside function")
        m = importlib.import_module(st.module)
        for a in st.names:
            env.vars[a.asname or a.name] = getattr(m, a.name)

    def x_Global(self, st, env):
        raise Unsupported("global statement")

    def x_Nonlocal(self, st, env):
        env.nonlocals = getattr(env, "nonlocals", set()) | set(st.names)

    def x_Delete(self, st, env):
        for t in st.targets:
            if isinstance(t, ast.Name):
                del env.vars[t.id]
            elif isinstance(t, ast.Subscript):
                obj = self.ev(t.value, env)
                idx = self.ev_index(t.slice, env)
                if is_sym(idx):
                    raise Unsupported("del with symbolic index")
                del obj[idx]
            elif isinstance(t, ast.Attribute):
                delattr(self.ev(t.value, env), t.attr)
            else:
                raise Unsupported("del target")

    def x_With(self, st, env):
        if len(st.items) != 1:
            raise Unsupported("multi-item with")
        item = st.items[0]
        cm = self.ev(item.context_expr, env)
        if isinstance(cm, IGenCM):
            try:
                v = next(cm.gen)
            except StopIteration:
                raise RuntimeError("generator didn't yield")
            if item.optional_vars is not None:
                self.assign(item.optional_vars, v, env)
            try:
                yield from self.exec_block(st.body, env)
            except Exception as e:
                try:
                    cm.gen.throw(e)
                except StopIteration:
                    return  # swallowed
                raise RuntimeError("generator didn't stop after throw()")
            except BaseException:
                # control-flow signal (return/break/...) or engine exception: run the generator's finally blocks
                cm.gen.close()
                raise
            else:
                try:
                    next(cm.gen)
                except StopIteration:
                    return
                raise RuntimeError("generator didn't stop")
            return
        enter = self.getattr(cm, "__enter__")
        exit_ = self.getattr(cm, "__exit__")
        v = self.call(enter, [], {})
        if item.optional_vars is not None:
            self.assign(item.optional_vars, v, env)
        try:
            yield from self.exec_block(st.body, env)
        except Exception as e:
            if not self.call(exit_, [type(e), e, e.__traceback__], {}):
                raise
        except BaseException:
            self.call(exit_, [None, None, None], {})
            raise
        else:
            self.call(exit_, [None, None, None], {})

    # -- expressions ---------------------------------------------------------------------------------------------------
    def ev(self, e, env):
        m = getattr(self, "e_" + type(e).__name__, None)
        if m is None:
            raise Unsupported("expression " + type(e).__name__)
        return m(e, env)

    def e_Constant(self, e, env):
        v = e.value
        return v

    def e_Name(self, e, env):
        return env.lookup(e.id)

    def _elts(self, elts, env):
        out = []
        for x in elts:
            if isinstance(x, ast.Starred):
                out.extend(m_iter(self.ev(x.value, env)))
            else:
                out.append(self.ev(x, env))
        return out

    def e_Tuple(self, e, env):
        return tuple(self._elts(e.elts, env))

    def e_List(self, e, env):
        return self._elts(e.elts, env)

    def e_Set(self, e, env):
        vals = self._elts(e.elts, env)
        if any(is_sym(v) for v in vals):
            raise Unsupported("set display with symbolic element")
        return set(vals)

    def e_NamedExpr(self, e, env):
        v = self.ev(e.value, env)
        self.assign(e.target, v, env)
        return v

    def e_Slice(self, e, env):
        return self.ev_index(e, env)

    def e_Dict(self, e, env):
        from .models_lib import IDict

        out = IDict()
        for k, v in zip(e.keys, e.values):
            if k is None:
                out.update(self.ev(v, env))
                continue
            out[self.ev(k, env)] = self.ev(v, env)
        return out

    def e_JoinedStr(self, e, env):
        parts = []
        for v in e.values:
            if isinstance(v, ast.Constant):
                parts.append(v.value)
            else:
                x = unwrap(self.ev(v.value, env))
                parts.append("<sym>" if is_sym(x) else format(x, self.ev(v.format_spec, env) if v.format_spec else ""))
        return "".join(parts)

    def e_BinOp(self, e, env):
        return binop(BINOPS[type(e.op)], self.ev(e.left, env), self.ev(e.right, env))

    def e_UnaryOp(self, e, env):
        v = self.ev(e.operand, env)
        if isinstance(e.op, ast.Not):
            if isinstance(v, SymBool):
                return mkbool(z3.Not(v.e))
            return not truth(v)
        if isinstance(e.op, ast.USub):
            return binop("-", 0, v)
        if isinstance(e.op, ast.UAdd):
            return v
        raise Unsupported("unary")

    def e_BoolOp(self, e, env):
        if isinstance(e.op, ast.And):
            v = True
            for x in e.values:
                v = self.ev(x, env)
                if not truth(v):
                    return v
            return v
        v = False
        for x in e.values:
            v = self.ev(x, env)
            if truth(v):
                return v
        return v

    def e_Compare(self, e, env):
        left = self.ev(e.left, env)
        res = True
        for op, r in zip(e.ops, e.comparators):
            right = self.ev(r, env)
            res = compare(CMPOPS[type(op)], left, right)
            if len(e.ops) > 1 and not truth(res):
                return False
            left = right
        return res

    def e_IfExp(self, e, env):
        return self.ev(e.body, env) if truth(self.ev(e.test, env)) else self.ev(e.orelse, env)

    def e_Lambda(self, e, env):
        return IFunc(e, env.globs, env, self, "<lambda>", [self.ev(d, env) for d in e.args.defaults])

    def ev_index(self, s, env):
        if isinstance(s, ast.Slice):
            return slice(
                self.ev(s.lower, env) if s.lower else None,
                self.ev(s.upper, env) if s.upper else None,
                self.ev(s.step, env) if s.step else None,
            )
        return self.ev(s, env)

    def e_Subscript(self, e, env):
        obj = self.ev(e.value, env)
        idx = self.ev_index(e.slice, env)
        if isinstance(obj, SymSeq):
            return obj.getitem(idx)
        if self.is_repo_class(type(obj)):
            gi = self.find_in_mro(type(obj), "__getitem__")
            if isinstance(gi, types.FunctionType) and self.is_repo_func(gi):
                return self.call_ifunc(self.lift_function(gi), [obj, idx], {})
        for h in SUBSCRIPT_HOOKS:
            r = h(self, obj, idx)
            if r is not NOT_HANDLED:
                return r
        if getattr(type(obj), "__symx_model__", False) and hasattr(type(obj), "__getitem__") and not isinstance(obj, SymSeq):
            return obj[unwrap(idx)]
        if isinstance(obj, dict) and not deep_concrete(unwrap(idx)):
            from .models_lib import sym_dict_get

            return sym_dict_get(obj, idx, strict=True)
        idx = unwrap(idx)
        if isinstance(obj, (bytes, str)) and (
            is_sym(idx) or isinstance(idx, slice) and any(is_sym(x) for x in (idx.start, idx.stop, idx.step))
        ):
            T = SymBytes if isinstance(obj, bytes) else SymStr
            return T(seq_cells(obj, T)).getitem(idx)
        if isinstance(obj, (list, tuple)) and isinstance(idx, SymInt):
            idx = concretize(idx)
        if isinstance(obj, (list, tuple)) and isinstance(idx, slice):
            idx = slice(*(concretize(x) if x is not None else None for x in (idx.start, idx.stop, idx.step)))
        r = obj[idx]
        if isinstance(obj, (bytes, bytearray)) and isinstance(r, (bytes, bytearray)):
            return r
        return r

    def e_Attribute(self, e, env):
        obj = self.ev(e.value, env)
        return self.getattr(obj, e.attr)

    def getattr(self, obj, name):
        if is_native():
            return getattr(obj, name)
        for h in GETATTR_HOOKS:
            r = h(self, obj, name)
            if r is not NOT_HANDLED:
                return r
        if isinstance(obj, SuperProxy):
            mro = type(obj.obj).__mro__ if not isinstance(obj.obj, type) else obj.obj.__mro__
            for klass in mro[mro.index(obj.cls) + 1 :]:
                if name in klass.__dict__:
                    attr = klass.__dict__[name]
                    if isinstance(attr, types.FunctionType) and self.is_repo_func(attr):
                        return BoundI(self.lift_function(attr), obj.obj)
                    return attr.__get__(obj.obj, type(obj.obj))
            raise AttributeError(name)
        if isinstance(obj, SymSeq):
            if name in SEQ_METHODS:
                return getattr(obj, name)
            raise Unsupported("method %s on symbolic %s" % (name, type(obj).__name__))
        if isinstance(obj, SymInt):
            if name == "to_bytes":
                return lambda *a, **k: m_int_to_bytes(obj, *a, **k)
            if name == "value":  # cstruct int/enum-like access on a symbolic field value
                return obj
            raise Unsupported("SymInt." + name)
        if obj is int and name in ("from_bytes", "to_bytes"):
            return getattr(IntShim, name)
        if isinstance(obj, (bytes, str)) and name in SEQ_METHODS:
            # keep natively unless args are symbolic: wrap
            native = getattr(obj, name)
            T = SymBytes if isinstance(obj, bytes) else SymStr

            def meth(*a, **k):
                if all(deep_concrete(unwrap(x)) for x in a):
                    return native(*[unwrap(x) for x in a], **k)
                return getattr(T(seq_cells(obj, T)), name)(*a, **k)

            return meth
        # instance of a repo class: methods are interpreted
        cls = type(obj)
        if (getattr(cls, "__module__", "") or "").startswith(self.module_prefixes):
            for klass in cls.__mro__:
                if name in klass.__dict__:
                    attr = klass.__dict__[name]
                    if isinstance(attr, types.FunctionType) and self.is_repo_func(attr):
                        if name in getattr(obj, "__dict__", {}):
                            break
                        return BoundI(self.lift_function(attr), obj)
                    if isinstance(attr, property) and self.is_repo_func(attr.fget):
                        return self.call_ifunc(self.lift_function(attr.fget), [obj], {})
                    break
        return getattr(obj, name)

    def e_Call(self, e, env):
        if isinstance(e.func, ast.Name) and e.func.id == "super" and not e.args:
            return SuperProxy(env.lookup("__class__"), env.lookup("__symx_self__"), self)
        f = self.ev(e.func, env)
        import logging as _logging

        if isinstance(getattr(f, "__self__", None), _logging.Logger) and f.__name__ in (
            "debug", "info", "warning", "error", "exception", "critical", "log"
        ):
            return None  # logging is a no-op stub: its arguments are not even rendered
        args = []
        for a in e.args:
            if isinstance(a, ast.Starred):
                args.extend(m_iter(self.ev(a.value, env)))
            else:
                args.append(self.ev(a, env))
        kwargs = {}
        for k in e.keywords:
            if k.arg is None:
                kwargs.update(self.ev(k.value, env))
            else:
                kwargs[k.arg] = self.ev(k.value, env)
        return self.call(f, args, kwargs)

    def comp(self, gens, env, emit):
        def rec(i, env):
            if i == len(gens):
                emit(env)
                return
            g = gens[i]
            for v in m_iter(self.ev(g.iter, env)):
                e2 = Env(env.globs, env)
                self.assign(g.target, v, e2)
                if all(truth(self.ev(c, e2)) for c in g.ifs):
                    rec(i + 1, e2)

        rec(0, env)

    def e_ListComp(self, e, env):
        out = []
        self.comp(e.generators, env, lambda en: out.append(self.ev(e.elt, en)))
        return out

    def e_GeneratorExp(self, e, env):
        """lazy, like CPython: the outermost iterable is evaluated now, everything else (element expression, filters, inner
        iterables — and any exception they raise) when the generator is consumed"""
        gens = e.generators
        first_iter = self.ev(gens[0].iter, env)

        def rec(i, en, it0=None):
            if i == len(gens):
                yield self.ev(e.elt, en)
                return
            g = gens[i]
            source = it0 if i == 0 else self.ev(g.iter, en)
            for v in m_iter(source):
                e2 = Env(en.globs, en)
                self.assign(g.target, v, e2)
                if all(truth(self.ev(c, e2)) for c in g.ifs):
                    yield from rec(i + 1, e2)

        return rec(0, env, first_iter)

    def e_SetComp(self, e, env):
        return set(self.e_ListComp(e, env))

    def e_DictComp(self, e, env):
        from .models_lib import IDict

        out = IDict()
        self.comp(e.generators, env, lambda en: out.__setitem__(self.ev(e.key, en), self.ev(e.value, en)))
        return out




def _iter_repo_objects(x):
    """for-loops / list() over instances of repo classes go through their interpreted __iter__/__next__"""
    itp = Interp.cur
    if itp is None or is_native() or isinstance(x, (SymSeq, list, tuple, dict, str, bytes)):
        return NOT_HANDLED
    cls = type(x)
    if not itp.is_repo_class(cls):
        return NOT_HANDLED
    it_f = itp.find_in_mro(cls, "__iter__")
    if not (isinstance(it_f, types.FunctionType) and itp.is_repo_func(it_f)):
        return NOT_HANDLED
    it = itp.call_ifunc(itp.lift_function(it_f), [x], {})
    nx = itp.find_in_mro(type(it), "__next__") if itp.is_repo_class(type(it)) else None
    if not (isinstance(nx, types.FunctionType) and itp.is_repo_func(nx)):
        return iter(it)

    def gen():
        n = 0
        while True:
            n += 1
            if n > itp.MAX_FOR:
                raise UnwindLimit("iterator protocol loop")
            try:
                v = itp.call_ifunc(itp.lift_function(nx), [it], {})
            except SymStopIteration:
                return
            yield v

    return gen()


V.ITER_HOOKS.append(_iter_repo_objects)


def _m_getattr(obj, name, *default):
    try:
        return Interp.cur.getattr(obj, unwrap(name))
    except AttributeError:
        if default:
            return default[0]
        raise


def _m_hasattr(obj, name):
    try:
        Interp.cur.getattr(obj, unwrap(name))
        return True
    except AttributeError:
        return False


def _m_setattr(obj, name, v):
    Interp.cur.setattr(obj, unwrap(name), v)


for _f in (_m_getattr, _m_hasattr, _m_setattr):
    _f.__symx_model__ = True
V.BUILTIN_MODELS.update(getattr=_m_getattr, hasattr=_m_hasattr, setattr=_m_setattr)
