r"""
symx.values: path context, symbolic value representations and the models of Python builtins.

 - real source is parsed with `ast` (from the imported module's file) and *interpreted*;
 - byte/str cells and small ints are z3 bit-vectors (exact integer semantics by widening);
 - every branch on a symbolic condition goes through Ctx.decide(): DFS over decision prefixes by re-execution,
   infeasible sides pruned by the solver;
 - properties are checked with Ctx.prove(): path /\ not prop must be unsat.
"""
from __future__ import annotations

import io
import time

import os

import z3

class _NotHandled:
    def __repr__(self):
        return "NOT_HANDLED"


NOT_HANDLED = _NotHandled()


# ----------------------------------------------------------------------------------------------------------------------
# path context
# ----------------------------------------------------------------------------------------------------------------------


class Unsupported(BaseException):
    """construct outside the modelled subset: ends the check with the harness-error code, never a verdict.
    BaseException so that interpreted `except Exception` handlers cannot swallow it."""


class PathAbort(BaseException):
    """path is infeasible / cut"""


class UnwindLimit(BaseException):
    pass


class Violation(BaseException):
    def __init__(self, what, model, ctx):
        self.what = what
        self.model = model
        self.ctx = ctx


QUERY_TIMEOUT_MS = 120000  # a single SMT query that does not finish is `unknown` => inconclusive, never a verdict


class Ctx:
    cur: "Ctx" = None
    native = False

    def __init__(self, prefix=()):
        self.proves = 0
        self.notes = []
        self.prefix = list(prefix)
        self.log = []
        self.solver = z3.Solver()
        self.solver.set("timeout", QUERY_TIMEOUT_MS)
        self.pending = []  # alternative prefixes discovered on this path
        self.nq = 0
        self.tq = 0.0
        self.fresh_id = 0
        self.inputs = {}
        self.signed_inputs = set()
        self.model = None

    def _check(self, *assumptions):
        t = time.time()
        r = self.solver.check(*assumptions)
        self.tq += time.time() - t
        self.nq += 1
        if r == z3.unknown:
            raise Unsupported("solver returned unknown: %s" % self.solver.reason_unknown())
        return r == z3.sat

    def assume(self, cond):
        cond = tobool_expr(cond)
        if cond is True:
            return
        if cond is False:
            raise PathAbort()
        self.solver.add(cond)
        if self.model is not None and self._eval(cond) is True:
            return
        if not self._check():
            raise PathAbort()
        self.model = self.solver.model()

    def add_c(self, *cs):
        """add constraints directly (not through decide/assume): the cached witness may no longer satisfy the path"""
        self.solver.add(*cs)
        self.model = None

    def _eval(self, cond):
        try:
            v = self.model.eval(cond, model_completion=True)
        except z3.Z3Exception:
            return None
        if z3.is_true(v):
            return True
        if z3.is_false(v):
            return False
        return None

    def decide(self, cond) -> bool:
        """cond: z3 BoolRef. Returns the branch taken on this path. A cached model of the path condition serves as
        the feasibility witness of the side it satisfies, so only the other side needs a solver query."""
        cond = z3.simplify(cond)
        if z3.is_true(cond):
            return True
        if z3.is_false(cond):
            return False
        i = len(self.log)
        if i < len(self.prefix):
            d = self.prefix[i]
            self.log.append(d)
            self.solver.add(cond if d else z3.Not(cond))
            if self.model is not None and self._eval(cond) is not d:
                self.model = None
            return d
        known = self._eval(cond) if self.model is not None else None
        other_model = None
        if known is None:
            can_t = self._check(cond)
            if can_t:
                mt = self.solver.model()
            can_f = self._check(z3.Not(cond))
            if can_f:
                mf = self.solver.model()
        elif known:
            can_t = True
            mt = self.model
            can_f = self._check(z3.Not(cond))
            if can_f:
                mf = self.solver.model()
        else:
            can_f = True
            mf = self.model
            can_t = self._check(cond)
            if can_t:
                mt = self.solver.model()
        if can_t and can_f:
            self.pending.append(self.log + [False])
            d = True
        elif can_t:
            d = True
        elif can_f:
            d = False
        else:
            raise PathAbort()
        self.model = mt if d else mf
        self.log.append(d)
        self.solver.add(cond if d else z3.Not(cond))
        return d

    def prove(self, prop, what="assertion"):
        self.proves += 1
        prop = tobool_expr(prop)
        if prop is True:
            return
        if prop is False:
            if self._check():
                raise Violation(what, self.solver.model(), self)
            return
        if self._check(z3.Not(prop)):
            raise Violation(what, self.solver.model(), self)
        if SECOND["enabled"]:
            second_opinion(self, prop, what)

    def fresh(self, name):
        self.fresh_id += 1
        return "%s!%d" % (name, self.fresh_id)

    def witness(self, *vals):
        """pick one concrete assignment of the given symbolic values that satisfies the path condition and fix it
        (adds value == witness to the path): used for existence (`sat`) side conditions"""
        if not self._check():
            raise PathAbort()
        m = self.solver.model()
        out = []
        for v in vals:
            c = model_value(m, v)
            out.append(c)
            r = deep_eq(v, c)
            if r is not True:
                self.solver.add(tobool_expr(r))
        self.model = m
        return out[0] if len(out) == 1 else out


# ---- second solver (thorough tier): a sample of the discharged obligations is re-decided by other solver builds -------------
SECOND = dict(enabled=os.environ.get("VERIF_SECOND_SOLVER") == "1", rate=float(os.environ.get("VERIF_SECOND_RATE", "0.004")),
              cap=int(os.environ.get("VERIF_SECOND_CAP", "12")), stats={}, rng=None)
SECOND_SOLVERS = (("z3-4.8.12", ["/usr/bin/z3", "-T:20"]), ("cvc5-1.0", ["cvc5", "--tlimit=20000"]))


def second_opinion(ctx, prop, what):
    """z3 (Python API) just answered unsat for `path and not prop`. Dump that query as SMT-LIB2 and ask the other installed
    solvers. `sat` from any of them is a disagreement (reported as a harness error by the framework); unknown / timeout /
    parse errors (z3-specific syntax) are counted as inconclusive samples."""
    import random as _random
    import subprocess
    import tempfile

    st = SECOND["stats"]
    if SECOND["rng"] is None:
        SECOND["rng"] = _random.Random(os.getpid())
    if st.get("sampled", 0) >= SECOND["cap"] or SECOND["rng"].random() > SECOND["rate"]:
        return
    st["sampled"] = st.get("sampled", 0) + 1
    s2 = z3.Solver()
    s2.add(ctx.solver.assertions())
    s2.add(z3.Not(prop))
    text = s2.to_smt2()
    with tempfile.NamedTemporaryFile("w", suffix=".smt2", delete=False) as f:
        f.write(text)
        path = f.name
    try:
        for name, cmd in SECOND_SOLVERS:
            try:
                out = subprocess.run(cmd + [path], capture_output=True, text=True, timeout=40).stdout
            except Exception:  # noqa: BLE001 — timeout / missing binary
                out = "timeout"
            lines = [l.strip() for l in out.splitlines() if l.strip()]
            verdict = "error" if any(l.startswith("(error") for l in lines) else (lines[0] if lines and lines[0] in ("sat", "unsat", "unknown") else "inconclusive")
            key = "%s:%s" % (name, verdict)
            st[key] = st.get(key, 0) + 1
            if verdict == "sat":
                st.setdefault("disagreements", []).append("%s answered sat where z3 %s answered unsat: %s" % (name, z3.get_version_string(), what[:120]))
    finally:
        os.unlink(path)


class NativeCtx:
    """concrete twin of Ctx: the same harness body runs on the real code under CPython with the inputs of a model
    (counterexample replay, and validation of sampled passing paths against the implementation)."""

    native = True

    def __init__(self, inputs):
        self.values = dict(inputs)
        self.inputs = {}
        self.log = []
        self.pending = []
        self.nq = 0
        self.tq = 0.0
        self.fresh_id = 0
        self.proves = 0
        self.notes = []

    def assume(self, cond):
        if not _concrete_bool(cond):
            raise PathAbort()

    def decide(self, cond):
        return _concrete_bool(cond)

    def prove(self, prop, what="assertion"):
        self.proves += 1
        if not _concrete_bool(prop):
            raise Violation(what, None, self)

    def fresh(self, name):
        self.fresh_id += 1
        return "%s!%d" % (name, self.fresh_id)

    def witness(self, *vals):
        out = [to_native(v) for v in vals]
        return out[0] if len(out) == 1 else out


def _concrete_bool(c):
    if isinstance(c, SymBool):
        c = c.e
    if z3.is_expr(c):
        c = z3.simplify(c)
        if z3.is_true(c):
            return True
        if z3.is_false(c):
            return False
        raise Unsupported("symbolic condition in native mode: %s" % c)
    return bool(c)


def is_native():
    return getattr(Ctx.cur, "native", False)


def explore(fn, max_paths=100000, verbose=False):
    """Run fn() over all feasible paths. Returns stats dict; raises Violation."""
    work = [[]]
    stats = dict(paths=0, aborted=0, queries=0, solver_time=0.0)
    t0 = time.time()
    while work:
        prefix = work.pop()
        ctx = Ctx(prefix)
        Ctx.cur = ctx
        try:
            fn(ctx)
            stats["paths"] += 1
        except PathAbort:
            stats["aborted"] += 1
        finally:
            stats["queries"] += ctx.nq
            stats["solver_time"] += ctx.tq
        work.extend(ctx.pending)
        if stats["paths"] + stats["aborted"] > max_paths:
            raise Unsupported("path budget exceeded")
    stats["wall"] = time.time() - t0
    return stats


# ----------------------------------------------------------------------------------------------------------------------
# symbolic values
# ----------------------------------------------------------------------------------------------------------------------


def is_sym(v):
    return isinstance(v, (SymInt, SymBool, SymBytes, SymStr, SymReal))


CONCRETE_HOOKS = []  # f(v) -> NOT_HANDLED | bool  (model objects that carry symbolic state)


def deep_concrete(v, depth=0):
    for h in CONCRETE_HOOKS:
        r = h(v)
        if r is not NOT_HANDLED:
            return r
    if is_sym(v):
        return v.is_concrete() if isinstance(v, (SymBytes, SymStr)) else False
    if depth > 6:
        return True
    if isinstance(v, (list, tuple, set, frozenset)):
        return all(deep_concrete(x, depth + 1) for x in v)
    if isinstance(v, dict):
        return all(deep_concrete(k, depth + 1) and deep_concrete(x, depth + 1) for k, x in v.items())
    return True


def unwrap(v):
    """concrete-ise SymBytes/SymStr with all-concrete cells into native objects (deep for containers)"""
    if isinstance(v, SymBytes) and v.is_concrete():
        return bytes(v.cells)
    if isinstance(v, SymStr) and v.is_concrete():
        return "".join(map(chr, v.cells))
    if isinstance(v, list):
        return [unwrap(x) for x in v]
    if isinstance(v, tuple):
        return tuple(unwrap(x) for x in v)
    return v


class SymBool:
    def __init__(self, e):
        self.e = e

    def __bool__(self):
        return Ctx.cur.decide(self.e)


def tobool_expr(v):
    if isinstance(v, SymBool):
        return v.e
    if isinstance(v, SymInt):
        return v.ne(0).e
    if z3.is_expr(v):
        return v
    return bool(v)


def mkbool(e):
    if e is True or e is False:
        return e
    e = z3.simplify(e)
    if z3.is_true(e):
        return True
    if z3.is_false(e):
        return False
    return SymBool(e)


def truth(v) -> bool:
    """python truthiness with forking"""
    for h in TRUTH_HOOKS:
        r = h(v)
        if r is not NOT_HANDLED:
            return r
    if isinstance(v, SymBool):
        return Ctx.cur.decide(v.e)
    if isinstance(v, SymInt):
        return Ctx.cur.decide(v.ne(0).e)
    if isinstance(v, (SymBytes, SymStr)):
        return len(v.cells) > 0
    return bool(v)


class SymInt:
    """exact integer; e is an unsigned-or-signed z3 BitVec interpreted as signed two's complement of width w,
    with the invariant lo <= value <= hi (python ints) and the value always representable (no wrap)."""

    def __init__(self, e, lo, hi):
        self.e = e
        self.lo = lo
        self.hi = hi

    @property
    def w(self):
        return self.e.size()

    @staticmethod
    def from_byte(cell):
        if isinstance(cell, int):
            return cell
        return SymInt(z3.ZeroExt(1, cell), 0, (1 << cell.size()) - 1)

    @staticmethod
    def width_for(lo, hi):
        w = 2
        while not (-(1 << (w - 1)) <= lo and hi <= (1 << (w - 1)) - 1):
            w += 1
        return w

    def ext(self, w):
        if w == self.w:
            return self.e
        assert w > self.w
        return z3.SignExt(w - self.w, self.e)

    @staticmethod
    def lift(v, w):
        if isinstance(v, SymInt):
            return v.ext(w)
        return z3.BitVecVal(v, w)

    @staticmethod
    def rng(v):
        if isinstance(v, SymInt):
            return v.lo, v.hi
        if isinstance(v, bool):
            v = int(v)
        return v, v

    @staticmethod
    def make(e, lo, hi):
        e = z3.simplify(e)
        if z3.is_bv_value(e):
            return e.as_signed_long()
        if lo == hi:
            return lo
        return SymInt(e, lo, hi)

    @staticmethod
    def binop(op, a, b):
        if isinstance(a, SymBool) or isinstance(b, SymBool):
            raise Unsupported("arith on symbolic bool")
        if op in ("^", "&", "|") and (isinstance(a, ByteInt) or isinstance(b, ByteInt)) and all(
            isinstance(x, ByteInt) or (isinstance(x, int) and not isinstance(x, bool) and x >= 0) for x in (a, b)
        ):
            return ByteInt.bitop(op, a, b)
        alo, ahi = SymInt.rng(a)
        blo, bhi = SymInt.rng(b)
        if op == "+":
            lo, hi = alo + blo, ahi + bhi
        elif op == "-":
            lo, hi = alo - bhi, ahi - blo
        elif op == "*":
            c = [alo * blo, alo * bhi, ahi * blo, ahi * bhi]
            lo, hi = min(c), max(c)
        elif op in ("//", "%"):
            if not isinstance(b, int) or b <= 0:
                raise Unsupported("// or % by symbolic/non-positive divisor")
            if op == "//":
                lo, hi = alo // b, ahi // b
            else:
                lo, hi = (0, b - 1) if (alo // b != ahi // b) else (alo % b, ahi % b)
        elif op in ("&", "|", "^"):
            if alo < 0 or blo < 0:
                # two's complement semantics of Python ints: exact after sign extension to a common width
                if op == "&" and (alo >= 0 or blo >= 0):
                    lo, hi = 0, (ahi if alo >= 0 else bhi)
                else:
                    w0 = max(SymInt.width_for(alo, ahi), SymInt.width_for(blo, bhi))
                    lo, hi = -(1 << (w0 - 1)), (1 << (w0 - 1)) - 1
            else:
                m = max(ahi, bhi)
                lo, hi = 0, (1 << m.bit_length()) - 1
                if op == "&":
                    hi = min(ahi, bhi)
        elif op == "<<":
            if not isinstance(b, int) or b < 0:
                raise Unsupported("shift by symbolic")
            lo, hi = alo << b, ahi << b
        elif op == ">>":
            if not isinstance(b, int) or b < 0:
                raise Unsupported("shift by symbolic")
            lo, hi = alo >> b, ahi >> b
        else:
            raise Unsupported("binop " + op)
        if op == "%" and alo >= 0 and ahi < b:
            return a  # interval analysis: modulo is the identity here (exact)
        if op == "//" and alo >= 0 and ahi < b:
            return 0
        if op in ("%", "//") and alo >= 0 and isinstance(a, SymInt) and b & (b - 1) == 0:
            # non-negative value, power-of-two divisor: exact bit extraction instead of bvsrem/bvsdiv
            k = b.bit_length() - 1
            if k == 0:
                return 0 if op == "%" else a
            if op == "%":
                return SymInt.make(z3.ZeroExt(1, z3.Extract(k - 1, 0, a.e)), 0, b - 1)
            return SymInt.make(z3.ZeroExt(1, z3.Extract(a.w - 1, k, a.e)), alo >> k, ahi >> k)
        w = max(SymInt.width_for(lo, hi), SymInt.width_for(alo, ahi), SymInt.width_for(blo, bhi))
        w = max(w, a.w if isinstance(a, SymInt) else 0, b.w if isinstance(b, SymInt) else 0)
        x, y = SymInt.lift(a, w), SymInt.lift(b, w)
        if op == "+":
            e = x + y
        elif op == "-":
            e = x - y
        elif op == "*":
            e = x * y
        elif op == "//":
            # floor division by positive constant: python floors; bv sdiv truncates -> correct for negatives
            q = x / y  # signed div (truncating)
            r = z3.SRem(x, y)
            e = z3.If(z3.And(r != 0, x < 0), q - 1, q)
        elif op == "%":
            r = z3.SRem(x, y)
            e = z3.If(r < 0, r + y, r)
        elif op == "&":
            e = x & y
        elif op == "|":
            e = x | y
        elif op == "^":
            e = x ^ y
        elif op == "<<":
            e = x << y
        elif op == ">>":
            e = x >> y  # arithmetic shift on signed = floor semantics
        return SymInt.make(e, lo, hi)

    @staticmethod
    def cmp(op, a, b):
        alo, ahi = SymInt.rng(a)
        blo, bhi = SymInt.rng(b)
        w = max(SymInt.width_for(alo, ahi), SymInt.width_for(blo, bhi))
        w = max(w, a.w if isinstance(a, SymInt) else 0, b.w if isinstance(b, SymInt) else 0)
        x, y = SymInt.lift(a, w), SymInt.lift(b, w)
        e = {"==": x == y, "!=": x != y, "<": x < y, "<=": x <= y, ">": x > y, ">=": x >= y}[op]
        return mkbool(e)

    def ne(self, k):
        r = SymInt.cmp("!=", self, k)
        return r if isinstance(r, SymBool) else SymBool(z3.BoolVal(r))

    def __index__(self):
        return concretize(self)

    def __repr__(self):
        return "SymInt(%s in [%d,%d])" % (self.e, self.lo, self.hi)


class SymReal:
    """exact rational/real number (z3 Real). Stands in for Python `float` where a property is decided over the
    rationals only (true division, random.uniform): rounding of IEEE-754 doubles is NOT modelled and never claimed."""

    def __init__(self, e):
        self.e = e

    @staticmethod
    def lift(v):
        if isinstance(v, SymReal):
            return v.e
        if isinstance(v, SymInt):
            return z3.ToReal(z3.BV2Int(v.e, True))
        if isinstance(v, bool):
            v = int(v)
        if isinstance(v, int):
            return z3.RealVal(v)
        if isinstance(v, float):
            from fractions import Fraction

            f = Fraction(v)
            return z3.Q(f.numerator, f.denominator)
        import fractions

        if isinstance(v, fractions.Fraction):
            return z3.Q(v.numerator, v.denominator)
        raise Unsupported("real arithmetic on %s" % type(v).__name__)

    @staticmethod
    def binop(op, a, b):
        x, y = SymReal.lift(a), SymReal.lift(b)
        if op == "+":
            return SymReal(x + y)
        if op == "-":
            return SymReal(x - y)
        if op == "*":
            return SymReal(x * y)
        if op == "/":
            if truth(mkbool(y == 0)):
                raise ZeroDivisionError("division by zero")
            return SymReal(x / y)
        raise Unsupported("real binop " + op)

    @staticmethod
    def cmp(op, a, b):
        x, y = SymReal.lift(a), SymReal.lift(b)
        return mkbool({"==": x == y, "!=": x != y, "<": x < y, "<=": x <= y, ">": x > y, ">=": x >= y}[op])

    def __repr__(self):
        return "SymReal(%s)" % self.e


def sym_real(name):
    """fresh real-valued input (native mode: the model's rational, as a Fraction)"""
    if is_native():
        from fractions import Fraction

        v = Ctx.cur.values.get(name, 0)
        v = Fraction(str(v).replace("?", "")) if not isinstance(v, (int, float)) else Fraction(v)
        Ctx.cur.inputs[name] = str(v)
        return v
    e = z3.Real(name)
    Ctx.cur.inputs[name] = e
    return SymReal(e)


class ByteInt(SymInt):
    """non-negative integer given by its little-endian byte cells (int.from_bytes of a long byte string). Bitwise
    operations with another ByteInt / non-negative int and to_bytes work cell by cell; the single wide bit-vector term
    is only built if some other operation asks for it. Same semantics as SymInt — an exact representation change that
    keeps `int.from_bytes(a) ^ int.from_bytes(b)` over kilobytes of data linear."""

    def __init__(self, le_cells):
        self.le_cells = list(le_cells)
        self._e = None
        self.lo, self.hi = 0, (1 << (8 * len(self.le_cells))) - 1

    @property
    def e(self):
        if self._e is None:
            cs = [z3.BitVecVal(c, 8) if isinstance(c, int) else c for c in reversed(self.le_cells)]
            self._e = z3.ZeroExt(1, z3.Concat(*cs) if len(cs) > 1 else cs[0])
        return self._e

    @staticmethod
    def cells_of(v, n):
        if isinstance(v, ByteInt):
            return v.le_cells + [0] * (n - len(v.le_cells))
        return list(v.to_bytes(n, "little"))

    @staticmethod
    def bitop(op, a, b):
        na = len(a.le_cells) if isinstance(a, ByteInt) else (a.bit_length() + 7) // 8
        nb = len(b.le_cells) if isinstance(b, ByteInt) else (b.bit_length() + 7) // 8
        n = max(na, nb, 1)
        out = []
        for x, y in zip(ByteInt.cells_of(a, n), ByteInt.cells_of(b, n)):
            if isinstance(x, int) and isinstance(y, int):
                out.append({"^": x ^ y, "&": x & y, "|": x | y}[op])
            else:
                xe = z3.BitVecVal(x, 8) if isinstance(x, int) else x
                ye = z3.BitVecVal(y, 8) if isinstance(y, int) else y
                r = z3.simplify({"^": xe ^ ye, "&": xe & ye, "|": xe | ye}[op])
                out.append(r.as_long() if z3.is_bv_value(r) else r)
        if all(isinstance(c, int) for c in out):
            return int.from_bytes(bytes(out), "little")
        return ByteInt(out)


def concretize(v, what="int"):
    """fork over all feasible values of a SymInt. Small intervals: ascending linear scan; large intervals: bisection
    on the interval (each feasible value still gets its own path; infeasible halves are pruned by the solver)."""
    if not isinstance(v, SymInt):
        return v
    ctx = Ctx.cur
    lo, hi = v.lo, v.hi
    if hi - lo <= 24:
        for k in range(lo, hi + 1):
            c = SymInt.cmp("==", v, k)
            if c is True:
                return k
            if c is False:
                continue
            if ctx.decide(c.e):
                return k
        raise PathAbort()
    while lo < hi:
        mid = (lo + hi) // 2
        c = SymInt.cmp("<=", v, mid)
        if c is True or (c is not False and ctx.decide(c.e)):
            hi = mid
        else:
            lo = mid + 1
    c = SymInt.cmp("==", v, lo)
    if c is False:
        raise PathAbort()
    if c is not True:
        ctx.assume(c)
    return lo


def sym_int(name, lo, hi):
    if is_native():
        v = Ctx.cur.values.get(name, lo)
        Ctx.cur.inputs[name] = v
        if not lo <= v <= hi:
            raise PathAbort()
        return v
    w = SymInt.width_for(lo, hi)
    e = z3.BitVec(name, w)
    ctx = Ctx.cur
    ctx.add_c(e >= lo, e <= hi)
    ctx.inputs[name] = e
    ctx.signed_inputs.add(name)
    return SymInt(e, lo, hi)


class SymSeq:
    CELLW = 8

    def __init__(self, cells):
        self.cells = list(cells)

    def is_concrete(self):
        return all(isinstance(c, int) for c in self.cells)

    def __len__(self):
        return len(self.cells)

    def cell_expr(self, c):
        return z3.BitVecVal(c, self.CELLW) if isinstance(c, int) else c

    def cell_eq(self, a, b):
        if isinstance(a, int) and isinstance(b, int):
            return a == b
        return self.cell_expr(a) == self.cell_expr(b)

    def eq(self, other):
        oc = seq_cells(other, type(self))
        if oc is None:
            return False
        if len(oc) != len(self.cells):
            return False
        conj = []
        for a, b in zip(self.cells, oc):
            e = self.cell_eq(a, b)
            if e is False:
                return False
            if e is True:
                continue
            conj.append(e)
        if not conj:
            return True
        return mkbool(z3.And(*conj))

    def match_at(self, oc, i):
        """bool expr: self[i:i+len(oc)] == oc"""
        if i < 0 or i + len(oc) > len(self.cells):
            return False
        return type(self)(self.cells[i : i + len(oc)]).eq(type(self)(oc))

    def getitem(self, idx):
        T = type(self)
        if isinstance(idx, slice):
            start, stop, step = (concretize(x) if x is not None else None for x in (idx.start, idx.stop, idx.step))
            return T(self.cells[slice(start, stop, step)])
        idx = concretize(idx)
        c = self.cells[idx]  # may raise IndexError: python semantics
        return self.elem(c)

    def find(self, sub, start=0, end=None):
        oc = seq_cells(sub, type(self))
        n = len(self.cells)
        start = concretize(start)
        if start is None:
            start = 0
        if start < 0:
            start = max(0, n + start)
        end = n if end is None else concretize(end)
        if end < 0:
            end = max(0, n + end)
        end = min(end, n)
        for i in range(start, end - len(oc) + 1):
            m = T_truth(self.match_at(oc, i))
            if m:
                return i
        return -1

    def concat(self, other):
        oc = seq_cells(other, type(self))
        if oc is None:
            raise TypeError("can't concat")
        return type(self)(self.cells + oc)

    def repeat(self, k):
        k = concretize(k)
        return type(self)(self.cells * k)

    def startswith(self, prefix):
        if isinstance(prefix, tuple):
            for p in prefix:
                if T_truth(self.startswith(p)):
                    return True
            return False
        oc = seq_cells(prefix, type(self))
        return self.match_at(oc, 0)

    def endswith(self, suffix):
        oc = seq_cells(suffix, type(self))
        return self.match_at(oc, len(self.cells) - len(oc))

    def partition(self, sep):
        oc = seq_cells(sep, type(self))
        i = self.find(sep)
        T = type(self)
        if i < 0:
            return (self, T([]), T([]))
        return (T(self.cells[:i]), T(oc), T(self.cells[i + len(oc) :]))

    def split(self, sep=None, maxsplit=-1):
        T = type(self)
        maxsplit = concretize(maxsplit)
        if sep is None:
            return self.split_ws(maxsplit)
        oc = seq_cells(sep, T)
        out = []
        cur = 0
        while True:
            i = self.find(sep, cur)
            if i < 0 or (maxsplit >= 0 and len(out) >= maxsplit):
                out.append(T(self.cells[cur:]))
                return out
            out.append(T(self.cells[cur:i]))
            cur = i + len(oc)

    def is_ws(self, c):
        if isinstance(c, int):
            return c in (9, 10, 11, 12, 13, 32)
        return z3.Or(*[c == k for k in (9, 10, 11, 12, 13, 32)])

    def split_ws(self, maxsplit=-1):
        T = type(self)
        out, cur = [], []
        cells = self.cells
        i, n = 0, len(cells)

        def ws(c):
            m = self.is_ws(c)
            return T_truth(m if isinstance(m, bool) else mkbool(m))

        while i < n:
            if maxsplit >= 0 and len(out) >= maxsplit and not cur:
                # remainder: leading whitespace skipped, everything else (trailing whitespace included) kept
                while i < n and ws(cells[i]):
                    i += 1
                if i < n:
                    out.append(T(cells[i:]))
                return out
            c = cells[i]
            if ws(c):
                if cur:
                    out.append(T(cur))
                    cur = []
            else:
                cur.append(c)
            i += 1
        if cur:
            out.append(T(cur))
        return out

    def rstrip(self, chars=None):
        T = type(self)
        cells = list(self.cells)
        while cells:
            c = cells[-1]
            if chars is None:
                m = self.is_ws(c)
                m = m if isinstance(m, bool) else mkbool(m)
            else:
                cc = seq_cells(chars, T)
                ors = [self.cell_eq(c, k) for k in cc]
                if any(o is True for o in ors):
                    m = True
                else:
                    ors = [o for o in ors if o is not False]
                    m = mkbool(z3.Or(*ors)) if ors else False
            if T_truth(m):
                cells.pop()
            else:
                break
        return T(cells)

    def map_cells(self, f):
        return type(self)([f(c) for c in self.cells])

    def upper(self):
        def up(c):
            if isinstance(c, int):
                return c - 32 if 97 <= c <= 122 else c
            return z3.If(z3.And(z3.UGE(c, 97), z3.ULE(c, 122)), c - 32, c)

        return self.map_cells(up)

    def lower(self):
        def lo(c):
            if isinstance(c, int):
                return c + 32 if 65 <= c <= 90 else c
            return z3.If(z3.And(z3.UGE(c, 65), z3.ULE(c, 90)), c + 32, c)

        return self.map_cells(lo)

    def replace(self, old, new):
        T = type(self)
        oc, nc = seq_cells(old, T), seq_cells(new, T)
        if not oc:
            raise Unsupported("replace empty")
        out, i = [], 0
        n = len(self.cells)
        while i < n:
            if i + len(oc) <= n and T_truth(self.match_at(oc, i)):
                out.extend(nc)
                i += len(oc)
            else:
                out.append(self.cells[i])
                i += 1
        return T(out)

    def contains(self, item):
        if isinstance(item, (int, SymInt)):
            ors = [SymInt.cmp("==", self.elem(c), item) for c in self.cells]
            for o in ors:
                if T_truth(o):
                    return True
            return False
        return self.find(item) >= 0


def T_truth(v):
    return truth(v)


class SymBytes(SymSeq):
    CELLW = 8

    def elem(self, c):
        return SymInt.from_byte(c)

    def __repr__(self):
        return "SymBytes(%r)" % (self.cells,)


class SymStr(SymSeq):
    CELLW = 21

    def elem(self, c):
        return SymStr([c])

    def __repr__(self):
        return "SymStr(%r)" % (self.cells,)


def seq_cells(v, T):
    if isinstance(v, SymSeq):
        if not isinstance(v, T):
            return None
        return v.cells
    if T is SymBytes and isinstance(v, (bytes, bytearray)):
        return list(v)
    if T is SymStr and isinstance(v, str):
        return [ord(c) for c in v]
    return None


def sym_bytes(name, n):
    ctx = Ctx.cur
    if is_native():
        cells = [ctx.values.get("%s[%d]" % (name, i), 0) for i in range(n)]
        for i, c in enumerate(cells):
            ctx.inputs["%s[%d]" % (name, i)] = c
        return SymBytes(cells)
    cells = []
    for i in range(n):
        e = z3.BitVec("%s[%d]" % (name, i), 8)
        ctx.inputs["%s[%d]" % (name, i)] = e
        cells.append(e)
    return SymBytes(cells)


def sym_str(name, n, maxcp=0x10FFFF):
    ctx = Ctx.cur
    if is_native():
        cells = [ctx.values.get("%s[%d]" % (name, i), 0) for i in range(n)]
        for i, c in enumerate(cells):
            ctx.inputs["%s[%d]" % (name, i)] = c
            if c > maxcp:
                raise PathAbort()
        return SymStr(cells)
    cells = []
    for i in range(n):
        e = z3.BitVec("%s[%d]" % (name, i), 21)
        ctx.add_c(z3.ULE(e, maxcp))
        ctx.inputs["%s[%d]" % (name, i)] = e
        cells.append(e)
    return SymStr(cells)


def as_cell(v, w):
    """int-like -> cell of width w, raising ValueError when out of range (python bytes() semantics)"""
    if isinstance(v, int):
        if not 0 <= v < (1 << w):
            raise ValueError("bytes must be in range(0, 256)")
        return v
    assert isinstance(v, SymInt)
    if v.lo is not None and v.hi is not None and 0 <= v.lo and v.hi < (1 << w):
        return z3.simplify(z3.Extract(w - 1, 0, v.ext(max(v.w, w))))  # in range by interval analysis: no decision needed
    inr = SymInt.cmp("<=", 0, v)
    inr2 = SymInt.cmp("<", v, 1 << w)
    if not (truth(inr) and truth(inr2)):
        raise ValueError("bytes must be in range(0, 256)")
    return z3.simplify(z3.Extract(w - 1, 0, v.ext(max(v.w, w))))


# ----------------------------------------------------------------------------------------------------------------------
# environment models
# ----------------------------------------------------------------------------------------------------------------------


class ModelBytesIO:
    """pure model of io.BytesIO (read-only use): contract = CPython docs; validated differentially."""

    __symx_model__ = True

    def to_native(self):
        f = io.BytesIO(bytes(self.data.cells))
        f.seek(self.pos)
        return f

    def __enter__(self):
        return self

    def __exit__(self, *a):
        return False

    def __init__(self, data=b""):
        cells = seq_cells(data, SymBytes)
        if cells is None:
            raise TypeError("a bytes-like object is required")
        self.data = SymBytes(cells)
        self.pos = 0

    def tell(self):
        return self.pos

    def _setpos(self, p):
        """positions inside the data are concrete; a symbolic position is kept only when it is provably at or beyond
        EOF on this path (all such positions behave alike for read()), so a symbolic seek target does not fork once
        per value"""
        if isinstance(p, SymInt):
            if truth(SymInt.cmp(">=", p, len(self.data))):
                self.pos = p
                return
            p = concretize(p)
        self.pos = p

    def seek(self, offset, whence=0):
        whence = concretize(whence)
        if whence == 0:
            if truth(compare("<", offset, 0)):
                self._neg(offset)
            self._setpos(offset)
        elif whence == 1:
            new = binop("+", self.pos, offset)
            if truth(compare("<", new, 0)):
                new = self._neg_rel(new)
            self._setpos(new)
        elif whence == 2:
            new = binop("+", len(self.data), offset)
            if truth(compare("<", new, 0)):
                new = self._neg_rel(new)
            self._setpos(new)
        else:
            raise ValueError("invalid whence (%r, should be 0, 1 or 2)" % (whence,))
        return self.pos

    def _neg(self, offset):
        raise ValueError("negative seek value %s" % (offset if isinstance(offset, int) else "<symbolic>"))

    def _neg_rel(self, new):
        return 0  # BytesIO clamps relative seeks at 0

    def read(self, n=-1):
        size = len(self.data)
        if isinstance(self.pos, SymInt):
            return SymBytes([])  # position is at/after EOF on this path
        rem = max(0, size - self.pos)
        if n is None:
            k = rem
        elif isinstance(n, SymInt):
            # result only depends on min(n, rem) for n >= 0; negative -> all
            if truth(SymInt.cmp("<", n, 0)) or truth(SymInt.cmp(">=", n, rem)):
                k = rem
            else:
                k = concretize(n)
        else:
            k = rem if n < 0 else min(n, rem)
        out = SymBytes(self.data.cells[self.pos : self.pos + k])
        self.pos += k
        return out

    def getvalue(self):
        return self.data

    def close(self):
        pass


class ModelOSFile(ModelBytesIO):
    """binary file opened with open(path, 'rb'): like BytesIO except that a negative resulting position is
    OSError(EINVAL) for every whence"""

    def _neg(self, offset):
        raise OSError(22, "Invalid argument")

    def _neg_rel(self, new):
        raise OSError(22, "Invalid argument")

    def to_native(self):
        import os
        import tempfile

        fd, path = tempfile.mkstemp(prefix="symx-replay-")
        os.write(fd, bytes(self.data.cells))
        os.close(fd)
        f = open(path, "rb")
        os.unlink(path)
        f.seek(self.pos)
        return f


class ModelBufferedReader:
    """io.BufferedReader over a model file: read/seek/tell delegate; peek(n) returns the buffered bytes from the current
    position without advancing (CPython returns at least one byte unless at EOF, possibly more than n: here everything
    up to one buffer of 8192 bytes)"""

    __symx_model__ = True

    def __init__(self, raw, buffer_size=8192):
        self.raw = raw

    def peek(self, n=0):
        if isinstance(self.raw.pos, SymInt):
            return SymBytes([])
        return SymBytes(self.raw.data.cells[self.raw.pos : self.raw.pos + 8192])

    def read(self, n=-1):
        return self.raw.read(n)

    def seek(self, offset, whence=0):
        return self.raw.seek(offset, whence)

    def tell(self):
        return self.raw.tell()

    def to_native(self):
        return io.BufferedReader(self.raw.to_native())


class IoShim:
    """stands in for the `io` module inside interpreted code"""

    BufferedReader = ModelBufferedReader

    SEEK_SET, SEEK_CUR, SEEK_END = 0, 1, 2
    DEFAULT_BUFFER_SIZE = io.DEFAULT_BUFFER_SIZE
    BytesIO = ModelBytesIO
    RawIOBase = io.RawIOBase


def m_int_from_bytes(data, byteorder="big", *, signed=False):
    cells = seq_cells(data, SymBytes)
    if cells is None:
        raise TypeError("cannot convert")
    byteorder = unwrap(byteorder)
    signed = truth(signed)
    if byteorder not in ("little", "big"):
        raise ValueError("byteorder must be either 'little' or 'big'")
    if not cells:
        return 0
    if byteorder == "little":
        cells = cells[::-1]
    if all(isinstance(c, int) for c in cells):
        return int.from_bytes(bytes(cells), "big", signed=signed)
    if not signed and len(cells) > 8:
        return ByteInt(cells[::-1])
    e = z3.Concat(*[z3.BitVecVal(c, 8) if isinstance(c, int) else c for c in cells]) if len(cells) > 1 else cells[0]
    n = 8 * len(cells)
    if signed:
        return SymInt.make(z3.SignExt(1, e), -(1 << (n - 1)), (1 << (n - 1)) - 1)
    return SymInt.make(z3.ZeroExt(1, e), 0, (1 << n) - 1)


def m_int_to_bytes(v, length=1, byteorder="big", *, signed=False):
    length = concretize(length)
    byteorder = unwrap(byteorder)
    signed = truth(signed)
    if byteorder not in ("little", "big"):
        raise ValueError("byteorder must be either 'little' or 'big'")
    if isinstance(v, bool):
        v = int(v)
    if isinstance(v, int):
        return unwrap(SymBytes(list(v.to_bytes(length, byteorder, signed=signed))))
    if not isinstance(v, SymInt):
        raise TypeError("descriptor 'to_bytes' requires an int")
    if length < 0:
        raise ValueError("length argument must be non-negative")
    if isinstance(v, ByteInt) and not signed:
        cs = v.le_cells
        if length >= len(cs) or all(isinstance(c, int) and c == 0 for c in cs[length:]):
            cells = (cs + [0] * (length - len(cs)))[:length]
            return SymBytes(cells[::-1] if byteorder == "big" else cells)
    if signed:
        if length == 0:
            if truth(SymInt.cmp("!=", v, 0)):
                raise OverflowError("int too big to convert")
            return b""
        if truth(SymInt.cmp("<", v, -(1 << (8 * length - 1)))) or truth(SymInt.cmp(">=", v, 1 << (8 * length - 1))):
            raise OverflowError("int too big to convert")
        w = max(v.w, 8 * length)
        e = v.ext(w)
        cells = [z3.simplify(z3.Extract(8 * i + 7, 8 * i, e)) for i in range(length)]
        cells = [c.as_long() if z3.is_bv_value(c) else c for c in cells]
        if byteorder == "big":
            cells = cells[::-1]
        return SymBytes(cells)
    if truth(SymInt.cmp("<", v, 0)):
        raise OverflowError("can't convert negative int to unsigned")
    if length == 0:
        if truth(SymInt.cmp("!=", v, 0)):
            raise OverflowError("int too big to convert")
        return SymBytes([])
    if truth(SymInt.cmp(">=", v, 1 << (8 * length))):
        raise OverflowError("int too big to convert")
    w = max(v.w, 8 * length)
    e = v.ext(w)
    cells = [z3.simplify(z3.Extract(8 * i + 7, 8 * i, e)) for i in range(length)]  # little endian order
    cells = [c.as_long() if z3.is_bv_value(c) else c for c in cells]
    if byteorder == "big":
        cells = cells[::-1]
    return SymBytes(cells)


class IntShim:
    from_bytes = staticmethod(m_int_from_bytes)
    to_bytes = staticmethod(m_int_to_bytes)

    def __new__(cls, *a):
        if a and is_sym(a[0]):
            if isinstance(a[0], SymInt):
                return a[0]
            raise Unsupported("int() of symbolic")
        return int(*a)


def m_len(x):
    if isinstance(x, SymSeq):
        return len(x.cells)
    return len(x)


def m_sum(it, start=0):
    acc = start
    for x in m_iter(it):
        acc = binop("+", acc, x)
    return acc


ITER_HOOKS = []


def m_iter(x, *sentinel):
    if sentinel:
        # iter(callable, sentinel): call until the result equals the sentinel
        def gen():
            from .interp import Interp

            n = 0
            while True:
                n += 1
                if n > Interp.MAX_FOR:
                    raise UnwindLimit("iter(callable, sentinel) loop")
                v = Interp.cur.call(x, [], {}) if Interp.cur is not None and not is_native() else x()
                if truth(compare("==", v, sentinel[0])):
                    return
                yield v
        return gen()
    for h in ITER_HOOKS:
        r = h(x)
        if r is not NOT_HANDLED:
            return r
    if isinstance(x, SymBytes):
        return iter([SymInt.from_byte(c) for c in x.cells])
    if isinstance(x, SymStr):
        return iter([SymStr([c]) for c in x.cells])
    return iter(x)


def m_bytes(x=b"", *a):
    if isinstance(x, SymBytes):
        return x
    if isinstance(x, int):
        return SymBytes([0] * x)
    if isinstance(x, (bytes, bytearray)):
        return SymBytes(list(x))
    cells = [as_cell(v, 8) for v in m_iter(x)]
    return SymBytes(cells)


def m_bytes_fromhex(string):
    """bytes.fromhex: pairs of hexadecimal digits, ASCII whitespace between the pairs is skipped; anything else -> ValueError"""
    u = unwrap(string)
    if isinstance(u, str):
        return bytes.fromhex(u)
    if not isinstance(u, SymStr):
        raise TypeError("fromhex() argument must be str")
    from .models_str import hexval

    cells = u.cells
    out = []
    i = 0

    def ws(c):
        if isinstance(c, int):
            return c in (9, 10, 11, 12, 13, 32)
        return truth(mkbool(z3.Or(*[c == k for k in (9, 10, 11, 12, 13, 32)])))

    while i < len(cells):
        if ws(cells[i]):
            i += 1
            continue
        if i + 1 >= len(cells):
            raise ValueError("non-hexadecimal number found in fromhex() arg")
        ok1, v1 = hexval(cells[i])
        ok2, v2 = hexval(cells[i + 1])
        if not (truth(mkbool(ok1) if not isinstance(ok1, bool) else ok1) and truth(mkbool(ok2) if not isinstance(ok2, bool) else ok2)):
            raise ValueError("non-hexadecimal number found in fromhex() arg")
        b = binop("+", binop("*", v1, 16), v2)
        out.append(b if isinstance(b, int) else z3.simplify(z3.Extract(7, 0, b.e)))
        i += 2
    return unwrap(SymBytes(out))


m_bytes_fromhex.__symx_model__ = True


def m_ord(c):
    if isinstance(c, SymStr):
        if len(c.cells) != 1:
            raise TypeError("ord() expected a character")
        x = c.cells[0]
        return x if isinstance(x, int) else SymInt(z3.ZeroExt(1, x), 0, 0x10FFFF)
    if isinstance(c, SymBytes):
        if len(c.cells) != 1:
            raise TypeError("ord() expected a character")
        return SymInt.from_byte(c.cells[0])
    return ord(c)


SHIM_TO_BUILTIN = {}  # shim object -> builtin type it replaces (filled below and by the model modules)


def m_isinstance(v, t):
    ts = t if isinstance(t, tuple) else (t,)
    ts = tuple(SHIM_TO_BUILTIN.get(x, x) if callable(x) else x for x in ts)
    for h in ISINSTANCE_HOOKS:
        r = h(v, ts)
        if r is not NOT_HANDLED:
            return r
    if isinstance(v, SymBytes):
        return any(x is bytes for x in ts)
    if isinstance(v, SymStr):
        return any(x is str for x in ts)
    if isinstance(v, SymInt):
        return any(x is int for x in ts)
    if isinstance(v, ModelBytesIO):
        return False
    return isinstance(v, ts)



def m_map(f, *its):
    from .interp import Interp

    interp = Interp.cur
    return [interp.call(f, [*xs], {}) for xs in zip(*[list(m_iter(i)) for i in its])]


def m_bool(x=False):
    if isinstance(x, (SymBool,)):
        return x
    if isinstance(x, SymInt):
        return x.ne(0)
    return truth(x)


def m_min(*a, **k):
    if k:
        raise Unsupported("min with key")
    xs = list(m_iter(a[0])) if len(a) == 1 else list(a)
    if not any(is_sym(x) for x in xs):
        return min(xs)
    r = xs[0]
    for x in xs[1:]:
        if truth(compare("<", x, r)):
            r = x
    return r


def m_max(*a, **k):
    if k:
        raise Unsupported("max with key")
    xs = list(m_iter(a[0])) if len(a) == 1 else list(a)
    if not any(is_sym(x) for x in xs):
        return max(xs)
    r = xs[0]
    for x in xs[1:]:
        if truth(compare(">", x, r)):
            r = x
    return r


def m_abs(x):
    if isinstance(x, SymInt):
        return binop("-", 0, x) if truth(SymInt.cmp("<", x, 0)) else x
    return abs(x)


def m_range(*a):
    return range(*[concretize(x) for x in a])


def m_any(it):
    for x in m_iter(it):
        if truth(x):
            return True
    return False


def m_all(it):
    for x in m_iter(it):
        if not truth(x):
            return False
    return True


def m_list(x=()):
    return list(m_iter(x))


def m_tuple(x=()):
    return tuple(m_iter(x))


def m_reversed(x):
    if isinstance(x, SymSeq):
        return iter(list(m_iter(x))[::-1])
    return reversed(x)


def m_enumerate(x, start=0):
    return enumerate(m_iter(x), start)


def m_zip(*xs):
    return zip(*[m_iter(x) for x in xs])


BUILTIN_MODELS = {
    "bool": m_bool,
    "min": m_min,
    "max": m_max,
    "abs": m_abs,
    "range": m_range,
    "any": m_any,
    "all": m_all,
    "list": m_list,
    "tuple": m_tuple,
    "reversed": m_reversed,
    "enumerate": m_enumerate,
    "zip": m_zip,
    "len": m_len,
    "sum": m_sum,
    "bytes": m_bytes,
    "bytearray": m_bytes,
    "ord": m_ord,
    "isinstance": m_isinstance,
    "int": IntShim,
    "iter": m_iter,
    "map": m_map,
}

SEQ_METHODS = {
    "find",
    "startswith",
    "endswith",
    "partition",
    "split",
    "rstrip",
    "upper",
    "lower",
    "replace",
}


def binop(op, a, b):
    if isinstance(a, SymSeq) or isinstance(b, SymSeq):
        if op == "+":
            if isinstance(a, SymSeq):
                return a.concat(b)
            T = type(b)
            return T(seq_cells(a, T) + b.cells)
        if op == "*":
            if isinstance(a, SymSeq):
                return a.repeat(b)
            return b.repeat(a)
        raise Unsupported("seq binop " + op)
    if isinstance(a, SymReal) or isinstance(b, SymReal):
        return SymReal.binop(op, a, b)
    if isinstance(a, SymInt) or isinstance(b, SymInt):
        if isinstance(a, (bytes, str)) and op == "*":
            return (SymBytes(list(a)) if isinstance(a, bytes) else SymStr([ord(c) for c in a])).repeat(b)
        if op == "/":
            return SymReal.binop(op, a, b)  # true division: exact rational (see SymReal)
        return SymInt.binop(op, a, b)
    import operator as o

    f = {
        "+": o.add,
        "-": o.sub,
        "*": o.mul,
        "//": o.floordiv,
        "%": o.mod,
        "&": o.and_,
        "|": o.or_,
        "^": o.xor,
        "<<": o.lshift,
        ">>": o.rshift,
        "/": o.truediv,
        "**": o.pow,
    }[op]
    return f(a, b)


COMPARE_HOOKS = []  # f(op, a, b) -> NOT_HANDLED | result
ISINSTANCE_HOOKS = []  # f(v, types_tuple) -> NOT_HANDLED | bool
TRUTH_HOOKS = []  # f(v) -> NOT_HANDLED | bool





def compare(op, a, b):
    for h in COMPARE_HOOKS:
        r = h(op, a, b)
        if r is not NOT_HANDLED:
            return r
    if op in ("is", "is not"):
        r = a is b
        return r if op == "is" else not r
    if op in ("in", "not in"):
        if isinstance(b, SymSeq):
            r = b.contains(a)
        elif is_sym(a):
            r = False
            for x in b:
                if truth(compare("==", a, x)):
                    r = True
                    break
        else:
            r = a in b
        return r if op == "in" else (not truth(r))
    if op in ("==", "!=") and isinstance(a, (tuple, list)) and isinstance(b, (tuple, list)) and not (
        deep_concrete(a) and deep_concrete(b)
    ):
        r = deep_eq(a, b)
        if op == "!=":
            r = (not r) if isinstance(r, bool) else mkbool(z3.Not(r.e))
        return r
    if isinstance(a, SymSeq) or isinstance(b, SymSeq):
        if op not in ("==", "!="):
            raise Unsupported("seq ordering")
        r = a.eq(b) if isinstance(a, SymSeq) else b.eq(a)
        if op == "!=":
            r = (not r) if isinstance(r, bool) else mkbool(z3.Not(r.e))
        return r
    if isinstance(a, SymReal) or isinstance(b, SymReal):
        return SymReal.cmp(op, a, b)
    if isinstance(a, SymInt) or isinstance(b, SymInt):
        if not isinstance(a, (int, SymInt)) or not isinstance(b, (int, SymInt)):
            if op == "==":
                return False
            if op == "!=":
                return True
            raise TypeError("unorderable")
        return SymInt.cmp(op, a, b)
    import operator as o

    return {"==": o.eq, "!=": o.ne, "<": o.lt, "<=": o.le, ">": o.gt, ">=": o.ge}[op](a, b)



SHIM_TO_BUILTIN.update({m_bytes: bytes, IntShim: int, m_bool: bool, m_list: list, m_tuple: tuple})
m_bytes.fromhex = m_bytes_fromhex


def to_native(v, depth=0):
    """symbolic-layer value with concrete content -> plain Python object for a native call"""
    if isinstance(v, SymBytes):
        return bytes(v.cells)
    if isinstance(v, SymStr):
        return "".join(map(chr, v.cells))
    if isinstance(v, ModelBytesIO):
        return v.to_native()
    if depth > 6:
        return v
    if isinstance(v, list):
        return [to_native(x, depth + 1) for x in v]
    if isinstance(v, tuple) and type(v) is tuple:
        return tuple(to_native(x, depth + 1) for x in v)
    if isinstance(v, tuple) and hasattr(v, "_fields"):
        return type(v)(*[to_native(x, depth + 1) for x in v])
    if isinstance(v, dict) and type(v) is dict:
        return {to_native(k, depth + 1): to_native(x, depth + 1) for k, x in v.items()}
    return v


DEEP_EQ_HOOKS = []


def _and(a, b):
    if a is False or b is False:
        return False
    if a is True:
        return b
    if b is True:
        return a
    ae = a.e if isinstance(a, SymBool) else a
    be = b.e if isinstance(b, SymBool) else b
    return mkbool(z3.And(ae, be))


def deep_eq(a, b):
    """structural equality of two values of the symbolic layer -> bool | SymBool (no forking)"""
    for h in DEEP_EQ_HOOKS:
        r = h(a, b)
        if r is not NOT_HANDLED:
            return r
    if isinstance(a, SymSeq) or isinstance(b, SymSeq):
        if isinstance(a, SymSeq):
            return a.eq(b)
        return b.eq(a)
    if isinstance(a, (SymInt, SymBool)) or isinstance(b, (SymInt, SymBool)):
        if isinstance(a, SymBool) or isinstance(b, SymBool):
            ae = a.e if isinstance(a, SymBool) else z3.BoolVal(bool(a))
            be = b.e if isinstance(b, SymBool) else z3.BoolVal(bool(b))
            return mkbool(ae == be)
        if isinstance(a, bool) or isinstance(b, bool):
            return False
        if not isinstance(a, (int, SymInt)) or not isinstance(b, (int, SymInt)):
            return False
        return SymInt.cmp("==", a, b)
    if isinstance(a, (list, tuple)) and isinstance(b, (list, tuple)):
        if isinstance(a, list) != isinstance(b, list) or len(a) != len(b):
            return False
        r = True
        for x, y in zip(a, b):
            r = _and(r, deep_eq(x, y))
            if r is False:
                return False
        return r
    if isinstance(a, dict) and isinstance(b, dict):
        if list(a.keys()) != list(b.keys()):
            return False
        r = True
        for k in a:
            r = _and(r, deep_eq(a[k], b[k]))
            if r is False:
                return False
        return r
    if isinstance(a, (bytes, bytearray)) and isinstance(b, (bytes, bytearray)):
        return bytes(a) == bytes(b)
    if type(a) is not type(b) and not (isinstance(a, (int, str, bytes)) and isinstance(b, (int, str, bytes))):
        try:
            return bool(a == b) and bool(b == a)
        except Unsupported:
            raise
    return bool(a == b)


def model_value(model, v):
    """evaluate a (possibly symbolic) value under a z3 model -> concrete python value"""
    if isinstance(v, SymSeq):
        out = []
        for c in v.cells:
            out.append(c if isinstance(c, int) else model.eval(c, model_completion=True).as_long())
        return bytes(out) if isinstance(v, SymBytes) else "".join(map(chr, out))
    if isinstance(v, SymInt):
        return model.eval(v.e, model_completion=True).as_signed_long()
    if isinstance(v, SymBool):
        return z3.is_true(model.eval(v.e, model_completion=True))
    if isinstance(v, (list, tuple)):
        return type(v)(model_value(model, x) for x in v)
    return v
