"""string-side models for symx (repr of bytes, chr, next, join, int(str, base), f-strings)"""
import ast

import z3

from . import values as symx
from .values import *  # noqa: F401,F403
from . import interp as _interp
from .interp import Interp, GETATTR_HOOKS, NOT_HANDLED

HEX = "0123456789abcdef"


def m_repr(x):
    if isinstance(x, SymBytes):
        # CPython bytes_repr: quote is ' unless (has ' and no ")
        has_sq = any(truth(mkbool(c == 39) if not isinstance(c, int) else c == 39) for c in x.cells) if False else None
        # decide quote: need exact semantics; fork on existence of quotes
        sq = False
        dq = False
        for c in x.cells:
            if isinstance(c, int):
                sq |= c == 39
                dq |= c == 34
        # symbolic cells: fork lazily per cell class below; quote decision needs global info:
        sym_cells = [c for c in x.cells if not isinstance(c, int)]
        if not dq and sym_cells:
            # some symbolic cell may be a double quote / single quote: fork
            for c in sym_cells:
                if truth(mkbool(c == 34)):
                    dq = True
                    break
        if not sq and not dq:
            for c in sym_cells:
                if truth(mkbool(c == 39)):
                    sq = True
                    break
        elif not sq and dq:
            pass  # quote will be ' regardless of sq... careful: sq matters only if not dq
        quote = 34 if (sq and not dq) else 39
        out = [ord("b"), quote]
        for c in x.cells:
            out.extend(repr_cell(c, quote))
        out.append(quote)
        return SymStr(out)
    if is_sym(x):
        raise Unsupported("repr of %s" % type(x).__name__)
    return repr(x)


def repr_cell(c, quote):
    if isinstance(c, int):
        s = repr(bytes([c]))[2:-1] if True else None
        # repr of single byte uses ' quoting unless byte is ' ; normalise for our quote
        if c == quote or c == 92:
            return [92, c]
        if c == 39 or c == 34:
            return [c]
        if c == 9:
            return [92, ord("t")]
        if c == 10:
            return [92, ord("n")]
        if c == 13:
            return [92, ord("r")]
        if c < 32 or c >= 127:
            return [92, ord("x"), ord(HEX[c >> 4]), ord(HEX[c & 15])]
        return [c]
    # symbolic cell: fork into classes, then keep cell symbolic inside class
    for k in (quote, 92, 9, 10, 13):
        if truth(mkbool(c == k)):
            return repr_cell(k, quote)
    if truth(mkbool(z3.Or(z3.ULT(c, 32), z3.UGE(c, 127)))):
        hi = z3.LShR(c, 4)
        lo = c & 15

        def hexdigit(n):  # n: 8-bit bv 0..15 -> 21-bit code point
            n21 = z3.ZeroExt(13, n)
            return z3.If(z3.ULT(n, 10), n21 + 48, n21 + 87)

        return [92, ord("x"), z3.simplify(hexdigit(hi)), z3.simplify(hexdigit(lo))]
    return [z3.ZeroExt(13, c)]


def m_chr(v):
    if isinstance(v, SymInt):
        if not truth(SymInt.cmp("<=", 0, v)) or not truth(SymInt.cmp("<=", v, 0x10FFFF)):
            raise ValueError("chr() arg not in range(0x110000)")
        w = max(v.w, 21)
        return SymStr([z3.simplify(z3.Extract(20, 0, v.ext(w)))])
    return chr(v)


def m_next(it, *default):
    from .interp import SymStopIteration

    interp = Interp.cur
    nx = type(it).__dict__.get("__next__") if hasattr(type(it), "__next__") else None
    try:
        if nx is not None and interp.is_repo_func(nx):
            return interp.call(interp.getattr(it, "__next__"), [], {})
        try:
            return next(it)
        except StopIteration:
            raise SymStopIteration()
    except SymStopIteration:
        if default:
            return default[0]
        raise


def str_join(sep, items):
    items = list(m_iter(items))
    T = SymStr
    out = []
    sepc = seq_cells(sep, T)
    for i, it in enumerate(items):
        if i:
            out.extend(sepc)
        if isinstance(getattr(it, "value", None), SymStr) and hasattr(it, "type"):
            it = it.value  # str-like token object with symbolic text (lark.Token is a str subclass)
        cs = seq_cells(it, T)
        if cs is None:
            raise TypeError("sequence item %d: expected str instance, %s found" % (i, type(it).__name__))
        out.extend(cs)
    r = SymStr(out)
    return unwrap(r)


def hexval(c):
    """code point cell -> (validity bool expr, value SymInt 0..15)"""
    if isinstance(c, int):
        ch = chr(c)
        if ch in "0123456789abcdefABCDEF":
            return True, int(ch, 16)
        return False, 0
    isd = z3.And(z3.UGE(c, 48), z3.ULE(c, 57))
    isl = z3.And(z3.UGE(c, 97), z3.ULE(c, 102))
    isu = z3.And(z3.UGE(c, 65), z3.ULE(c, 70))
    val = z3.If(isd, c - 48, z3.If(isl, c - 87, c - 55))
    return z3.Or(isd, isl, isu), SymInt.make(z3.ZeroExt(1, z3.Extract(7, 0, val)), 0, 255)


CONTRACT_MODE = False  # set by harnesses that only decide totality / exception types


def int_dec(s):
    """int(str) base 10 for texts made of ASCII digits; a character that int() might accept otherwise (sign,
    whitespace, underscore, non-ASCII digit) is outside the model; any other character -> ValueError"""
    if not s.cells:
        raise ValueError("invalid literal for int() with base 10: ''")
    acc = 0
    for c in s.cells:
        if isinstance(c, int):
            isd = 48 <= c <= 57
        else:
            isd = truth(mkbool(z3.And(z3.UGE(c, 48), z3.ULE(c, 57))))
        if not isd:
            special = [9, 10, 11, 12, 13, 32, 43, 45, 95]
            if isinstance(c, int):
                odd = c in special or c >= 128 or 28 <= c <= 31
            else:
                odd = truth(mkbool(z3.Or(*[c == k for k in special], z3.UGE(c, 128), z3.And(z3.UGE(c, 28), z3.ULE(c, 31)))))
            if odd:
                if CONTRACT_MODE:
                    # totality harnesses (C08): int(text) "returns an int or raises ValueError" — both outcomes are explored,
                    # the value is left unconstrained
                    if truth(mkbool(z3.Bool(Ctx.cur.fresh("int_accepts")))):
                        return sym_int(Ctx.cur.fresh("int_value"), -(1 << 64), 1 << 64)
                    raise ValueError("invalid literal for int() with base 10")
                raise Unsupported("int() of text with sign/whitespace/underscore/non-ASCII characters")
            raise ValueError("invalid literal for int() with base 10")
        d = c - 48 if isinstance(c, int) else SymInt.make(z3.ZeroExt(1, z3.Extract(7, 0, c - 48)), 0, 9)
        acc = binop("+", binop("*", acc, 10), d)
    if isinstance(acc, SymInt):
        register_decimal(acc, s.cells)
    return acc


def register_decimal(v, cells):
    """remember that the int `v` is the value of the decimal digit cells `cells` (21-bit code points): rendering it
    again needs no arithmetic. (BV solvers do not decide uniqueness of an 8-digit decimal representation within
    minutes — measured — while this provenance makes str(int(str)) the identity it is.)"""
    Ctx.cur.__dict__.setdefault("dec_cache", []).append((v, list(cells)))


def _lookup_decimal(v):
    ctx = Ctx.cur
    for w, cells in reversed(ctx.__dict__.get("dec_cache", [])[-6:]):
        if w.e.get_id() == v.e.get_id():
            return cells
        ne = SymInt.cmp("!=", v, w)
        if ne is False:
            return cells
        if ne is True:
            continue
        ctx.solver.set("timeout", 3000)
        try:
            r = ctx.solver.check(ne.e)
        finally:
            ctx.solver.set("timeout", symx.QUERY_TIMEOUT_MS)
        ctx.nq += 1
        if r == z3.unsat:
            return cells
    return None


_IntShim_new = symx.IntShim.__new__


def int_new(cls, *a):
    if a and isinstance(a[0], SymStr):
        base = a[1] if len(a) > 1 else 10
        s = a[0]
        if base == 10:
            return int_dec(s)
        if base != 16:
            raise Unsupported("int(symbolic str, base %r)" % base)
        if not s.cells:
            raise ValueError("invalid literal for int()")
        acc = 0
        for c in s.cells:
            ok, v = hexval(c)
            if not truth(mkbool(ok) if not isinstance(ok, bool) else ok):
                raise ValueError("invalid literal for int() with base 16")
            acc = binop("+", binop("*", acc, 16), v)
        return acc
    return _IntShim_new(cls, *a)


symx.IntShim.__new__ = staticmethod(int_new)
symx.BUILTIN_MODELS.update({"repr": m_repr, "chr": m_chr, "next": m_next})
symx.SEQ_METHODS.add("join")
SymStr.join = lambda self, items: str_join(self, items)

def bytes_join(sep, items):
    items = list(m_iter(items))
    out = []
    sepc = seq_cells(sep, SymBytes)
    for i, it in enumerate(items):
        if i:
            out.extend(sepc)
        cs = seq_cells(unwrap(it), SymBytes) if isinstance(unwrap(it), (bytes, bytearray, SymBytes)) else None
        if cs is None:
            raise TypeError("sequence item %d: expected a bytes-like object, %s found" % (i, type(it).__name__))
        out.extend(cs)
    return unwrap(SymBytes(out))


SymBytes.join = lambda self, items: bytes_join(self, items)


def _getattr_join(self, obj, name):
    if isinstance(obj, str) and name == "join":
        return lambda items: str_join(obj, items)
    if isinstance(obj, (bytes, bytearray)) and name == "join":
        return lambda items: bytes_join(obj, items)
    return NOT_HANDLED


GETATTR_HOOKS.append(_getattr_join)


def e_JoinedStr(self, e, env):
    parts = []
    symbolic = False
    for v in e.values:
        if isinstance(v, ast.Constant):
            parts.append(v.value)
        else:
            x = unwrap(self.ev(v.value, env))
            if isinstance(x, SymStr):
                symbolic = True
                parts.append(x)
            elif is_sym(x):
                parts.append("<sym>")
            else:
                parts.append(format(x, self.ev(v.format_spec, env) if v.format_spec else ""))
    if symbolic:
        out = []
        for p in parts:
            out.extend(seq_cells(p, SymStr))
        return SymStr(out)
    return "".join(parts)


Interp.e_JoinedStr = e_JoinedStr


def _contract_high(enc):
    """contract model of decoding a byte >= 0x80 as UTF-8: UnicodeDecodeError, or some non-ASCII character (totality harnesses
    only: the decoded text is not an observable there)"""
    if truth(mkbool(z3.Bool(Ctx.cur.fresh("utf8_valid")))):
        c = z3.BitVec(Ctx.cur.fresh("utf8_char"), 21)
        Ctx.cur.add_c(z3.UGE(c, 128), z3.ULE(c, 0x10FFFF))
        return c
    raise UnicodeDecodeError(enc, b"", 0, 1, "model")


def seq_decode(self, encoding="utf-8", errors="strict"):
    enc = encoding.lower().replace("_", "-")
    out = []
    for c in self.cells:
        if enc in ("latin-1", "latin1", "iso-8859-1"):
            out.append(c if isinstance(c, int) else z3.ZeroExt(13, c))
            continue
        if enc not in ("utf-8", "utf8", "ascii"):
            raise Unsupported("decode " + encoding)
        if isinstance(c, int):
            if c < 128:
                out.append(c)
            elif errors == "ignore" and enc == "ascii":
                continue
            else:
                if enc == "ascii":
                    raise UnicodeDecodeError(enc, b"", 0, 1, "model")
                if CONTRACT_MODE:
                    out.append(_contract_high(enc))
                    continue
                raise Unsupported("utf-8 multibyte decode of concrete high byte in symbolic string")
        else:
            if truth(mkbool(z3.ULT(c, 128))):
                out.append(z3.ZeroExt(13, c))
            elif errors == "ignore" and enc == "ascii":
                continue
            elif enc == "ascii":
                raise UnicodeDecodeError(enc, b"", 0, 1, "model")
            elif CONTRACT_MODE:
                out.append(_contract_high(enc))
            else:
                raise Unsupported("utf-8 multibyte decode")
    return SymStr(out)


SymBytes.decode = seq_decode
symx.SEQ_METHODS.add("decode")


def seq_hex(self):
    out = []
    for c in self.cells:
        if isinstance(c, int):
            out.extend(ord(ch) for ch in "%02x" % c)
        else:
            for n in (z3.LShR(c, 4), c & 15):
                n21 = z3.ZeroExt(13, n)
                out.append(z3.simplify(z3.If(z3.ULT(n, 10), n21 + 48, n21 + 87)))
    return SymStr(out)


SymBytes.hex = seq_hex
symx.SEQ_METHODS.add("hex")


STR_HOOKS = []


def m_str(x="", *a):
    for h in STR_HOOKS:
        r = h(x)
        if r is not NOT_HANDLED:
            return r
    if isinstance(x, SymStr):
        return x
    if isinstance(x, SymBytes) and a:
        return x.decode(*a)
    if isinstance(x, SymInt):
        return int_to_str(x)
    if symx.is_sym(x):
        raise Unsupported("str() of %s" % type(x).__name__)
    return str(x, *a)


def _digits(v, nd, base):
    """nd fresh digit cells d with v == sum d_i * base^i (most significant first). Decimal/hex digits are *defined* by
    this linear relation (unique representation), which avoids division by constants in the solver."""
    ctx = Ctx.cur
    name = ctx.fresh("digits%d" % base)
    w = max(v.w + 1, SymInt.width_for(0, base**nd))
    ds = [z3.BitVec("%s.%d" % (name, i), w) for i in range(nd)]
    total = z3.BitVecVal(0, w)
    for d in ds:
        ctx.add_c(z3.ULE(d, base - 1))
        total = total * base + d
    ctx.add_c(total == v.ext(w))
    return ds, w


def int_to_str(v):
    """decimal rendering of a symbolic int: fork on sign and digit count, digits stay symbolic"""
    if isinstance(v, int):
        return str(v)
    hit = _lookup_decimal(v)
    if hit is not None:
        cells = list(hit)
        while len(cells) > 1:
            c = cells[0]
            if (c == 48) if isinstance(c, int) else truth(mkbool(c == 48)):
                cells.pop(0)  # str(int) has no leading zeros
            else:
                break
        return SymStr(cells)
    if truth(SymInt.cmp("<", v, 0)):
        return SymStr([45] + seq_cells(int_to_str(binop("-", 0, v)), SymStr))
    nd = 1
    while truth(SymInt.cmp(">=", v, 10**nd)):
        nd += 1
    ds, w = _digits(v, nd, 10)
    cells = []
    for d in ds:
        e = z3.Extract(20, 0, d) if w >= 21 else z3.ZeroExt(21 - w, d)
        cells.append(z3.simplify(e + 48))
    return SymStr(cells)


m_str.__symx_model__ = True
symx.BUILTIN_MODELS["str"] = m_str
symx.SHIM_TO_BUILTIN[m_str] = str


def str_encode(self, encoding="utf-8", errors="strict"):
    enc = encoding.lower().replace("_", "-")
    out = []
    for c in self.cells:
        if isinstance(c, int):
            if c < 128 or (enc in ("latin-1", "latin1", "iso-8859-1") and c < 256):
                out.append(c)
            elif enc in ("utf-8", "utf8"):
                out.extend(chr(c).encode("utf-8"))
            else:
                raise UnicodeEncodeError(enc, "", 0, 1, "model")
            continue
        lim = 256 if enc in ("latin-1", "latin1", "iso-8859-1") else 128
        if truth(mkbool(z3.ULT(c, lim))):
            out.append(z3.simplify(z3.Extract(7, 0, c)))
        elif enc in ("utf-8", "utf8"):
            # UTF-8 of a symbolic code point: fork on the length class, bytes by bit extraction
            def x(hi, lo, prefix, width):
                return z3.simplify(z3.Concat(z3.BitVecVal(prefix, 8 - width), z3.Extract(hi, lo, c)))
            if truth(mkbool(z3.ULT(c, 0x800))):
                out.extend([x(10, 6, 0b110, 5), x(5, 0, 0b10, 6)])
            elif truth(mkbool(z3.ULT(c, 0x10000))):
                if truth(mkbool(z3.And(z3.UGE(c, 0xD800), z3.ULE(c, 0xDFFF)))):
                    raise UnicodeEncodeError("utf-8", "", 0, 1, "surrogates not allowed")
                out.extend([x(15, 12, 0b1110, 4), x(11, 6, 0b10, 6), x(5, 0, 0b10, 6)])
            else:
                out.extend([x(20, 18, 0b11110, 3), x(17, 12, 0b10, 6), x(11, 6, 0b10, 6), x(5, 0, 0b10, 6)])
        else:
            raise UnicodeEncodeError(enc, "", 0, 1, "model")
    return SymBytes(out)


SymStr.encode = str_encode
symx.SEQ_METHODS.add("encode")
symx.SEQ_METHODS.update({"strip", "lstrip", "isdigit", "isalnum", "count", "index", "rfind", "rpartition", "rsplit", "splitlines", "title", "zfill", "format"})


def seq_lstrip(self, chars=None):
    T = type(self)
    rev = T(self.cells[::-1]).rstrip(chars if chars is None else V_reverse(chars, T))
    return T(rev.cells[::-1])


def V_reverse(chars, T):
    return T(seq_cells(chars, T)[::-1])


def seq_strip(self, chars=None):
    return seq_lstrip(self.rstrip(chars), chars)


SymSeq.lstrip = seq_lstrip
SymSeq.strip = seq_strip


def seq_count(self, sub):
    oc = seq_cells(sub, type(self))
    n, i = 0, 0
    while i + len(oc) <= len(self.cells):
        if truth(self.match_at(oc, i)):
            n += 1
            i += max(1, len(oc))
        else:
            i += 1
    return n


SymSeq.count = seq_count


# ----------------------------------------------------------------------------------------------------------------------
# formatting: str.format / f-string specs / % on symbolic ints and strings
# ----------------------------------------------------------------------------------------------------------------------

import re as _re_fmt

_SPEC = _re_fmt.compile(r"^(#?)(0?)(\d*)([dxX]?)$")


def int_to_hex(v, upper=False):
    if isinstance(v, int):
        return format(v, "X" if upper else "x")
    if truth(SymInt.cmp("<", v, 0)):
        return SymStr([45] + seq_cells(int_to_hex(binop("-", 0, v), upper), SymStr))
    nd = 1
    while truth(SymInt.cmp(">=", v, 16**nd)):
        nd += 1
    cells = []
    base = 55 if upper else 87
    w = max(v.w, 4 * nd)
    e = v.ext(w)
    for i in range(nd - 1, -1, -1):
        nib = z3.ZeroExt(17, z3.Extract(4 * i + 3, 4 * i, e))
        c = z3.simplify(z3.If(z3.ULT(nib, 10), nib + 48, nib + base))
        cells.append(c.as_long() if z3.is_bv_value(c) else c)
    return SymStr(cells)


def fmt_value(x, spec=""):
    """format(x, spec) for the specs the repository uses; x may be symbolic"""
    x = unwrap(x)
    spec = unwrap(spec) if spec is not None else ""
    if not symx.is_sym(x) and not getattr(type(x), "__symx_model__", False):
        return format(x, spec)
    if Interp.cur is not None and Interp.cur.cheap_fmt:
        return "<symbolic>"
    if isinstance(x, SymStr):
        if spec not in ("", "s"):
            raise Unsupported("format spec %r on symbolic str" % spec)
        return x
    if isinstance(x, SymInt):
        m = _SPEC.match(spec)
        if not m:
            raise Unsupported("format spec %r on symbolic int" % spec)
        alt, zero, width, kind = m.groups()
        body = int_to_str(x) if kind in ("", "d") else int_to_hex(x, kind == "X")
        cells = list(seq_cells(body, SymStr))
        neg = bool(cells) and cells[0] == 45
        if neg:
            cells = cells[1:]
        prefix = [ord("0"), ord(kind)] if alt and kind in ("x", "X") else []
        w = int(width) if width else 0
        padn = max(0, w - len(cells) - len(prefix) - (1 if neg else 0))
        if zero:
            cells = ([45] if neg else []) + prefix + [48] * padn + cells
        else:
            cells = [32] * padn + ([45] if neg else []) + prefix + cells
        return SymStr(cells)
    s = m_str(x)
    if spec not in ("", "s"):
        raise Unsupported("format spec %r on %s" % (spec, type(x).__name__))
    return s


def str_format(fmt, *args, **kwargs):
    import string

    out = []
    auto = 0
    sym = False
    for lit, field, spec, conv in string.Formatter().parse(fmt):
        if lit:
            out.append(lit)
        if field is None:
            continue
        if conv not in (None, "s"):
            if conv == "r":
                pass
            else:
                raise Unsupported("format conversion !%s" % conv)
        if field == "":
            v = args[auto]
            auto += 1
        elif field.isdigit():
            v = args[int(field)]
        else:
            name, _, attr = field.partition(".")
            v = kwargs[name]
            if attr:
                raise Unsupported("attribute access in format field")
        if Interp.cur is not None and Interp.cur.cheap_fmt and (symx.is_sym(unwrap(v)) or not symx.deep_concrete(unwrap(v))):
            out.append("<symbolic>")
            continue
        if conv == "r":
            v = symx.BUILTIN_MODELS["repr"](v)
        r = fmt_value(v, spec or "")
        if isinstance(r, SymStr):
            sym = True
        out.append(r)
    if not sym:
        return "".join(out)
    cells = []
    for p in out:
        cells.extend(seq_cells(p, SymStr))
    return SymStr(cells)


def _getattr_format(self, obj, name):
    if isinstance(obj, str) and name == "format":
        return lambda *a, **k: str_format(obj, *a, **k)
    return NOT_HANDLED


GETATTR_HOOKS.append(_getattr_format)
SymStr.format = lambda self, *a, **k: (_ for _ in ()).throw(Unsupported("format on a symbolic format string"))


def e_JoinedStr2(self, e, env):
    parts = []
    symbolic = False
    for v in e.values:
        if isinstance(v, ast.Constant):
            parts.append(v.value)
            continue
        x = unwrap(self.ev(v.value, env))
        if self.cheap_fmt and (symx.is_sym(x) or not symx.deep_concrete(x)):
            parts.append("<symbolic>")
            continue
        if v.conversion == ord("r"):
            x = symx.BUILTIN_MODELS["repr"](x)
        elif v.conversion == ord("s"):
            x = m_str(x)
        elif v.conversion not in (-1, None):
            raise Unsupported("f-string conversion")
        spec = self.ev(v.format_spec, env) if v.format_spec else ""
        r = fmt_value(x, spec)
        if isinstance(r, SymStr):
            symbolic = True
        parts.append(r)
    if symbolic:
        out = []
        for p in parts:
            out.extend(seq_cells(p, SymStr))
        return SymStr(out)
    return "".join(parts)


Interp.e_JoinedStr = e_JoinedStr2


def m_hex(x):
    if isinstance(x, SymInt):
        r = int_to_hex(x)
        cells = seq_cells(r, SymStr)
        if cells and cells[0] == 45:
            return SymStr([45, 48, 120] + cells[1:])
        return SymStr([48, 120] + cells)
    return hex(x)


m_hex.__symx_model__ = True
symx.BUILTIN_MODELS["hex"] = m_hex


# ---- str.splitlines / bytes.splitlines over symbolic cells (CPython's line boundaries; \r\n counts as one) ---------------------
_STR_LINE_BOUNDARIES = (0x0A, 0x0B, 0x0C, 0x0D, 0x1C, 0x1D, 0x1E, 0x85, 0x2028, 0x2029)
_BYTES_LINE_BOUNDARIES = (0x0A, 0x0D)


def _cell_is(c, v, w):
    if isinstance(c, int):
        return c == v
    return truth(mkbool(c == z3.BitVecVal(v, w)))


def seq_splitlines(self, keepends=False):
    T = type(self)
    w = T.CELLW
    bounds = _STR_LINE_BOUNDARIES if T is SymStr else _BYTES_LINE_BOUNDARIES
    out, cur = [], []
    cells = list(self.cells)
    i = 0
    while i < len(cells):
        c = cells[i]
        if isinstance(c, int):
            isb = c in bounds
        else:
            isb = truth(mkbool(z3.Or(*[c == z3.BitVecVal(b, w) for b in bounds])))
        if not isb:
            cur.append(c)
            i += 1
            continue
        end = [c]
        if _cell_is(c, 0x0D, w) and i + 1 < len(cells) and _cell_is(cells[i + 1], 0x0A, w):
            end.append(cells[i + 1])
        if truth(keepends):
            cur.extend(end)
        out.append(unwrap(T(cur)))
        cur = []
        i += len(end)
    if cur:
        out.append(unwrap(T(cur)))
    return out


SymStr.splitlines = seq_splitlines
SymBytes.splitlines = seq_splitlines
