"""dissect.cstruct environment model.

cstruct compiles every structure the repository defines into a Python reader whose source it keeps
(`Structure._read.__source__`).  That generated source is *interpreted* (so read granularity, tell() calls and the
EOFError rule are cstruct's own); only the leaves are modelled here:

  _struct(endian, fmt).unpack(buf)      -> ints from symbolic cells
  type.__call__(T, value)               -> int / enum / char construction (SymInt / SymEnum / bytes)
  ArrayT._read(stream, context=r)       -> dynamic arrays (`max(0, expr)` entries, Char reads one chunk)
  type.__call__(StructT, **fields)      -> real structure when every field is concrete, else SymStruct
  .dumps() / len() / bytes()            -> field concatenation
"""
import ast
import re
import types

import z3

from . import values as V
from .values import *  # noqa: F401,F403
from .interp import (
    Interp,
    IFunc,
    Env,
    BINOPS,
    CALL_HOOKS,
    GETATTR_HOOKS,
    NOT_HANDLED,
)
from dissect.cstruct.types.structure import StructureMetaType, Structure
from dissect.cstruct.types.enum import EnumMetaType
from dissect.cstruct.types.base import MetaType, BaseArray
from dissect.cstruct.types.char import Char, CharArray
from dissect.cstruct.expression import Expression

try:
    from dissect.cstruct.types.flag import FlagMetaType  # noqa: F401
except Exception:  # pragma: no cover
    FlagMetaType = ()


class SymEnum:
    """cstruct enum instance with symbolic value (resolved to a member only when .name / lookup needs it)"""

    def __init__(self, etype, v):
        self.etype = etype
        self.v = v
        self.unknown = False

    def resolve(self):
        if self.unknown:
            return self
        vals = sorted({m.value for m in self.etype.__members__.values()})
        for k in vals:
            if truth(SymInt.cmp("==", self.v, k)):
                return self.etype(k)
        self.unknown = True
        return self

    @property
    def value(self):
        return self.v

    @property
    def name(self):
        r = self.resolve()
        return None if r is self else r.name

    def __eq__(self, other):
        raise Unsupported("native eq on SymEnum")

    __hash__ = None

    def __repr__(self):
        return "<SymEnum %s %r>" % (self.etype.__name__, self.v)


def enum_eq(a, b):
    """cstruct Enum equality: same class and same value; ints compare by value"""
    if isinstance(a, SymEnum) and isinstance(b, SymEnum):
        if a.etype is not b.etype:
            return False
        return SymInt.cmp("==", a.v, b.v)
    if isinstance(b, SymEnum):
        a, b = b, a
    if isinstance(type(b), EnumMetaType):
        if type(b) is not a.etype:
            return False
        return SymInt.cmp("==", a.v, b.value)
    if isinstance(b, (int, SymInt)):
        return SymInt.cmp("==", a.v, b)
    return False


def _neg(r):
    return (not r) if isinstance(r, bool) else mkbool(z3.Not(r.e))


def _compare_enum(op, a, b):
    if isinstance(a, SymEnum) or isinstance(b, SymEnum):
        if op in ("==", "!="):
            r = enum_eq(a, b)
            return _neg(r) if op == "!=" else r
        if op in ("in", "not in"):
            r = False
            for x in b:
                if truth(enum_eq(a, x) if isinstance(a, SymEnum) or isinstance(x, SymEnum) else a == x):
                    r = True
                    break
            return r if op == "in" else not r
        if op in ("is", "is not"):
            return (a is b) == (op == "is")
        if op in ("<", "<=", ">", ">="):
            av = a.v if isinstance(a, SymEnum) else getattr(a, "value", a)
            bv = b.v if isinstance(b, SymEnum) else getattr(b, "value", b)
            return SymInt.cmp(op, av, bv)
    # concrete cstruct enum member against a symbolic int
    if op in ("==", "!=") and (
        (isinstance(a, SymInt) and isinstance(type(b), EnumMetaType))
        or (isinstance(b, SymInt) and isinstance(type(a), EnumMetaType))
    ):
        if isinstance(a, SymInt):
            r = SymInt.cmp("==", a, b.value)
        else:
            r = SymInt.cmp("==", b, a.value)
        return _neg(r) if op == "!=" else r
    return NOT_HANDLED


V.COMPARE_HOOKS.append(_compare_enum)


def _isinstance_struct(v, ts):
    if isinstance(v, SymEnum):
        return any(x is v.etype or x is int or (isinstance(x, type) and issubclass(v.etype, x)) for x in ts)
    if isinstance(v, SymStruct):
        return any(x is v._symx_stype or (isinstance(x, type) and issubclass(v._symx_stype, x)) for x in ts)
    return NOT_HANDLED


V.ISINSTANCE_HOOKS.append(_isinstance_struct)


class SymStruct:
    """structure instance with at least one symbolic field"""

    def __init__(self, stype, values):
        object.__setattr__(self, "_symx_stype", stype)
        object.__setattr__(self, "_symx_vals", values)
        object.__setattr__(self, "_symx_extra", {})

    def __getattr__(self, name):
        vals = object.__getattribute__(self, "_symx_vals")
        if name in vals:
            return vals[name]
        extra = object.__getattribute__(self, "_symx_extra")
        if name in extra:
            return extra[name]
        if name == "__values__":
            return vals
        raise AttributeError("%r object has no attribute %r" % (self._symx_stype.__name__, name))

    def __setattr__(self, name, v):
        if name in self._symx_vals:
            self._symx_vals[name] = v
        else:
            self._symx_extra[name] = v

    def dumps(self):
        return dump_struct(self._symx_stype, self._symx_vals)

    @property
    def __class__(self):
        return object.__getattribute__(self, "_symx_stype")

    def __repr__(self):
        return "<SymStruct %s %r>" % (self._symx_stype.__name__, self._symx_vals)


# ----------------------------------------------------------------------------------------------------------------------
# leaves of the generated readers
# ----------------------------------------------------------------------------------------------------------------------

_FMT = re.compile(r"(\d*)([xbBhHiIlLqQs?])")
_SIZES = {"x": 1, "b": 1, "B": 1, "h": 2, "H": 2, "i": 4, "I": 4, "l": 4, "L": 4, "q": 8, "Q": 8, "?": 1}


def int_from_cells(cells, endian, signed):
    v = m_int_from_bytes(SymBytes(cells), "little" if endian == "<" else "big")
    if signed:
        bits = 8 * len(cells)
        if isinstance(v, int):
            return v - (1 << bits) if v >= (1 << (bits - 1)) else v
        e = z3.Extract(bits - 1, 0, v.e)
        return SymInt.make(z3.SignExt(1, e), -(1 << (bits - 1)), (1 << (bits - 1)) - 1)
    return v


class StructShim:
    __symx_model__ = True

    def __init__(self, endian, fmt):
        self.endian = endian
        self.fmt = fmt
        self.items = [(int(n) if n else 1, c) for n, c in _FMT.findall(fmt)]
        if "".join(m.group(0) for m in _FMT.finditer(fmt)) != fmt:
            # be strict: a format character this model does not know must not be silently skipped
            raise Unsupported("struct format %r" % fmt)

    def unpack(self, buf):
        cells = seq_cells(buf, SymBytes)
        pos = 0
        out = []
        for n, c in self.items:
            if c == "s":
                out.append(V.unwrap(SymBytes(cells[pos : pos + n])))
                pos += n
                continue
            sz = _SIZES[c]
            for _ in range(n):
                if c != "x":
                    out.append(int_from_cells(cells[pos : pos + sz], self.endian, c.islower() and c != "x"))
                pos += sz
        if pos != len(cells):
            import struct

            raise struct.error("unpack requires a buffer of %d bytes" % pos)
        return tuple(out)


def is_int_type(t):
    return isinstance(t, type) and issubclass(t, int) and not isinstance(t, EnumMetaType) and hasattr(t, "size")


def construct_scalar(t, v):
    """type.__call__(T, v) for leaf types with a possibly symbolic v"""
    v = V.unwrap(v)
    if isinstance(t, EnumMetaType):
        if isinstance(v, SymEnum):
            v = v.v
        if isinstance(v, SymInt):
            return SymEnum(t, v)
        return t(v)
    if is_int_type(t):
        if isinstance(v, SymInt):
            return v
        return type.__call__(t, v)
    if isinstance(t, type) and issubclass(t, bytes):
        if isinstance(v, SymBytes):
            return v
        return type.__call__(t, v)
    if isinstance(t, type) and issubclass(t, list):
        return type.__call__(t, v)
    raise Unsupported("type.__call__(%r, ...)" % (t,))


def eval_expr(expr, vals):
    src = expr.expression
    node = ast.parse(src.strip(), mode="eval").body

    def ev(n):
        if isinstance(n, ast.Name):
            v = vals[n.id]
            if isinstance(v, SymEnum):
                return v.v
            return v
        if isinstance(n, ast.Constant):
            return n.value
        if isinstance(n, ast.BinOp):
            return V.binop(BINOPS[type(n.op)], ev(n.left), ev(n.right))
        if isinstance(n, ast.UnaryOp) and isinstance(n.op, ast.USub):
            return V.binop("-", 0, ev(n.operand))
        raise Unsupported("cstruct expression " + src)

    return ev(node)


def stream_read(stream, n):
    itp = Interp.cur
    return itp.call(itp.getattr(stream, "read"), [n], {})


def read_exact(stream, n):
    data = stream_read(stream, n)
    ln = m_len(data)
    if ln != n:
        raise EOFError("Read %d bytes, but expected %d" % (ln, n))
    return data


def read_type(t, stream, context):
    """T._read(stream, context) for non-structure types"""
    if isinstance(t, StructureMetaType):
        return read_struct(t, stream, context)
    if isinstance(t, EnumMetaType):
        return construct_scalar(t, read_type(t.type, stream, context))
    if isinstance(t, type) and issubclass(t, BaseArray):
        if t.null_terminated:
            raise Unsupported("null terminated cstruct array")
        n = t.num_entries
        if isinstance(n, Expression):
            n = eval_expr(n, context or {})
        elif n is None:
            raise Unsupported("EOF-sized cstruct array")
        if isinstance(n, SymInt):
            # max(0, n) and then an exact read: fork on the sign, then over the feasible lengths
            if truth(SymInt.cmp("<=", n, 0)):
                n = 0
            elif issubclass(t.type, Char):
                # Char._read_array: one read(n); EOFError unless exactly n bytes come back. The stream model decides
                # n >= remaining first so that large length fields do not fork once per value.
                data = stream_read(stream, n)
                ln = m_len(data)
                short = SymInt.cmp("!=", n, ln)
                if truth(short):
                    raise EOFError("Read %d bytes, but expected more" % ln)
                return construct_scalar(t, data)
            else:
                n = concretize(n)
        n = max(0, n)
        if issubclass(t.type, Char):
            if n == 0:
                return construct_scalar(t, b"")
            return construct_scalar(t, read_exact(stream, n))
        return construct_scalar(t, [read_type(t.type, stream, context) for _ in range(n)])
    if isinstance(t, type) and issubclass(t, Char):
        return construct_scalar(t, read_exact(stream, 1))
    if is_int_type(t):
        d = read_exact(stream, t.size)
        return construct_scalar(
            t, int_from_cells(seq_cells(d, SymBytes), t.cs.endian, getattr(t, "signed", t.__name__.startswith("int")))
        )
    raise Unsupported("cstruct type %r" % (t,))


_READER_CACHE = {}


def reader_ifunc(stype):
    if stype in _READER_CACHE:
        return _READER_CACHE[stype]
    rd = stype.__dict__.get("_read")
    f = getattr(rd, "__func__", None)
    src = getattr(f, "__source__", None) or getattr(stype._read, "__source__", None)
    if src is None:
        _READER_CACHE[stype] = None
        return None
    node = ast.parse(src).body[0]
    g = dict(f.__globals__)
    g["__symx_overrides__"] = {}
    fn = IFunc(node, g, Env(g), Interp.cur, "cstruct<%s>._read" % stype.__name__)
    _READER_CACHE[stype] = fn
    return fn


def read_struct(stype, stream, context=None):
    if isinstance(stream, (bytes, bytearray, SymBytes)):
        stream = ModelBytesIO(stream)
    if type(stream) in (ModelBytesIO, V.ModelOSFile) and isinstance(stream.pos, int) and not getattr(stype, "dynamic", True):
        # fast path: a statically sized structure over bytes that are all concrete is parsed by the real cstruct reader
        # (the generated reader does exactly one read(size) for such a structure); anything else is interpreted below
        size = stype.size
        if isinstance(size, int) and size > 0:
            chunk = stream.data.cells[stream.pos : stream.pos + size]
            if len(chunk) == size and all(type(c) is int for c in chunk):
                stream.pos += size
                return stype(bytes(chunk))
    fn = reader_ifunc(stype)
    if fn is None:
        raise Unsupported("cstruct structure %s has no compiled reader" % stype.__name__)
    Interp.cur.encoded.add("dissect.cstruct generated reader %s._read" % stype.__name__)
    fn.interp = Interp.cur
    return Interp.cur.call_ifunc(fn, [stype, stream], {"context": context})


def construct_struct(stype, args, kwargs):
    """StructT(**fields): default-initialise the others (cstruct __default__)"""
    vals = {}
    names = [f._name for f in stype.__fields__]
    for f, a in zip(stype.__fields__, args):
        vals[f._name] = a
    vals.update(kwargs)
    for k in vals:
        if k not in names:
            raise TypeError("unexpected field %s" % k)
    conc = all(V.deep_concrete(V.unwrap(v)) and not isinstance(v, (SymEnum, SymStruct)) for v in vals.values())
    if conc:
        return type.__call__(stype, **{k: V.unwrap(v) for k, v in vals.items()})
    for f in stype.__fields__:
        if f._name not in vals:
            vals[f._name] = f.type.__default__()
    return SymStruct(stype, {n: vals[n] for n in names})


def dump_value(t, v):
    v = V.unwrap(v)
    if isinstance(t, StructureMetaType):
        if isinstance(v, SymStruct):
            return v.dumps()
        return SymBytes(list(v.dumps()))
    if isinstance(t, EnumMetaType):
        if isinstance(v, SymEnum):
            v = v.v
        elif not isinstance(v, (int, SymInt)):
            v = v.value
        return dump_value(t.type, v)
    if isinstance(t, type) and issubclass(t, BaseArray):
        if issubclass(t.type, Char):
            if isinstance(v, str):
                v = v.encode("latin-1")
            cells = seq_cells(v, SymBytes)
            if cells is None:
                raise Unsupported("dump of char array from %r" % type(v))
            if not t.dynamic and t.num_entries != len(cells):
                from dissect.cstruct.exceptions import ArraySizeError

                raise ArraySizeError("Expected static array size %s, got %d instead." % (t.num_entries, len(cells)))
            return SymBytes(cells)
        out = []
        for x in v:
            out += seq_cells(dump_value(t.type, x), SymBytes)
        return SymBytes(out)
    if isinstance(t, type) and issubclass(t, Char):
        return SymBytes(seq_cells(v, SymBytes))
    if is_int_type(t):
        signed = getattr(t, "signed", False)
        order = "little" if t.cs.endian == "<" else "big"
        if isinstance(v, SymInt):
            if signed:
                raise Unsupported("dump of symbolic signed int")
            # cstruct masks? no: int.to_bytes raises OverflowError out of range
            return m_int_to_bytes(v, t.size, order)
        return SymBytes(list(int(v).to_bytes(t.size, order, signed=signed)))
    raise Unsupported("dump of cstruct type %r" % (t,))


def dump_struct(stype, vals):
    out = []
    for f in stype.__fields__:
        out += seq_cells(dump_value(f.type, vals[f._name]), SymBytes)
    return SymBytes(out)


# ----------------------------------------------------------------------------------------------------------------------
# hooks
# ----------------------------------------------------------------------------------------------------------------------

_TYPE_CALL = type.__call__
_META_DUMPS = MetaType.dumps


def _call_hook(self, f, args, kwargs):
    if f is _TYPE_CALL and args and isinstance(args[0], MetaType):
        t = args[0]
        if isinstance(t, StructureMetaType):
            return construct_struct(t, args[1:], kwargs)
        return construct_scalar(t, args[1])
    if getattr(f, "__name__", None) == "_struct" and hasattr(f, "cache_info") and len(args) == 2:
        return StructShim(V.unwrap(args[0]), V.unwrap(args[1]))
    if isinstance(f, types.MethodType) and isinstance(f.__self__, MetaType):
        t = f.__self__
        if f.__name__ == "_read":
            return read_type(t, args[0], kwargs.get("context", args[1] if len(args) > 1 else None))
        if f.__name__ in ("reads", "read") and len(args) == 1:
            a = args[0]
            if isinstance(a, (bytes, bytearray, SymBytes)):
                a = ModelBytesIO(a)
            return read_type(t, a, None)
        if f.__name__ == "dumps" and len(args) == 1:
            return V.unwrap(dump_value(t, args[0]))
    if isinstance(f, MetaType):
        t = f
        if isinstance(t, StructureMetaType):
            if len(args) == 1 and not kwargs and (hasattr(args[0], "read") or isinstance(args[0], (bytes, bytearray, SymBytes))):
                a = args[0]
                if isinstance(a, (bytes, bytearray, SymBytes)):
                    a = ModelBytesIO(a)
                return read_struct(t, a)
            return construct_struct(t, args, kwargs)
        if len(args) == 1 and not kwargs:
            a = args[0]
            if isinstance(a, (SymInt, SymEnum)):
                return construct_scalar(t, a)
            if isinstance(a, SymBytes) or (isinstance(a, (bytes, bytearray)) and not isinstance(a, t)):
                if isinstance(t, type) and issubclass(t, bytes) and len(a) == getattr(t, "size", None):
                    return construct_scalar(t, a)
                return read_type(t, ModelBytesIO(a), None)
            if hasattr(a, "read") and not isinstance(a, (int, bytes)):
                return read_type(t, a, None)
    if f is _META_DUMPS and args and isinstance(args[0], StructureMetaType):
        st = kwargs.get("value", args[1] if len(args) > 1 else None)
        if isinstance(st, SymStruct):
            return V.unwrap(st.dumps())
        if isinstance(st, Structure):
            vals = {fl._name: getattr(st, fl._name) for fl in type(st).__fields__}
            if not all(V.deep_concrete(V.unwrap(v)) and not isinstance(v, (SymEnum, SymStruct)) for v in vals.values()):
                return V.unwrap(dump_struct(type(st), vals))  # a real instance that was assigned symbolic field values
    if isinstance(f, types.MethodType) and isinstance(f.__self__, Structure) and f.__name__ == "dumps":
        st = f.__self__
        if type(st) is SymStruct:
            return f()
        vals = {fl._name: getattr(st, fl._name) for fl in type(st).__fields__}
        if all(V.deep_concrete(V.unwrap(v)) and not isinstance(v, (SymEnum, SymStruct)) for v in vals.values()):
            return f()
        return V.unwrap(dump_struct(type(st), vals))  # a real instance that was assigned symbolic field values
    return NOT_HANDLED


CALL_HOOKS.append(_call_hook)


def _getattr_hook(self, obj, name):
    if isinstance(obj, (SymStruct, SymEnum)):
        return getattr(obj, name)
    return NOT_HANDLED


GETATTR_HOOKS.append(_getattr_hook)

_len0 = V.BUILTIN_MODELS["len"]


def m_len_struct(x):
    if isinstance(x, SymStruct):
        return len(x.dumps().cells)
    if isinstance(x, Structure):
        vals = {fl._name: getattr(x, fl._name) for fl in type(x).__fields__}
        if not all(V.deep_concrete(V.unwrap(v)) and not isinstance(v, (SymEnum, SymStruct)) for v in vals.values()):
            return len(dump_struct(type(x), vals).cells)
    return _len0(x)


m_len_struct.__symx_model__ = True
V.BUILTIN_MODELS["len"] = m_len_struct
V.m_len = m_len_struct


def _concrete_hook(v):
    if isinstance(v, (SymEnum, SymStruct)):
        return False
    return NOT_HANDLED


V.CONCRETE_HOOKS.append(_concrete_hook)


def _str_enum(x):
    if isinstance(x, SymEnum):
        r = x.resolve()
        if r is not x:
            return str(r)
        from .models_str import int_to_str

        return SymStr([ord(c) for c in x.etype.__name__ + "."] + seq_cells(int_to_str(x.v), SymStr))
    return NOT_HANDLED


from . import models_str as _ms  # noqa: E402

_ms.STR_HOOKS.append(_str_enum)


def _deep_eq_enum(a, b):
    if isinstance(a, SymEnum) or isinstance(b, SymEnum):
        return enum_eq(a, b)
    return NOT_HANDLED


V.DEEP_EQ_HOOKS.append(_deep_eq_enum)
