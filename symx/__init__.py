"""symx: bounded symbolic interpreter for the repository's own Python source (see DESIGN.md §2)."""
from .values import *  # noqa: F401,F403
from .interp import *  # noqa: F401,F403
from . import values, interp  # noqa: F401
