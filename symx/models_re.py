"""`re` model: the pattern *string* used by the repository is parsed with CPython's own sre parser and matched against a
symbolic text of concrete length by a backtracking matcher whose character tests fork through the solver.
Supported: literals, classes (ranges, categories \\d \\w \\s, negation), ANY, ^ $ \\A \\Z, greedy/lazy repeats, groups,
alternation. Anything else on symbolic text is Unsupported. Concrete text goes to the real `re`."""
import re as _re

try:
    import re._parser as sre_parse
    import re._constants as sre_c
except ImportError:  # py < 3.11
    import sre_parse
    import sre_constants as sre_c

import z3

from . import values as V
from .values import *  # noqa: F401,F403
from .interp import DEFAULT_OVERRIDES, CALL_HOOKS, NOT_HANDLED


def _cell(c):
    return c


def _in_range(c, lo, hi):
    if isinstance(c, int):
        return lo <= c <= hi
    return z3.And(z3.UGE(c, lo), z3.ULE(c, hi))


def _eq(c, k):
    if isinstance(c, int):
        return c == k
    return c == k


def _or(xs):
    xs = [x for x in xs if x is not False]
    if any(x is True for x in xs):
        return True
    if not xs:
        return False
    return z3.Or(*xs)


def _not(x):
    if isinstance(x, bool):
        return not x
    return z3.Not(x)


def _category(c, cat, flags):
    name = str(cat)
    if "DIGIT" in name:
        r = _in_range(c, 48, 57)
        # str patterns: \d also matches other Unicode decimal digits; outside the modelled alphabet
        if not isinstance(c, int):
            V.Ctx.cur.notes.append("re model: \\d restricted to ASCII digits")
        elif c > 127 and chr(c).isdigit():
            raise Unsupported("unicode digit in \\d")
    elif "SPACE" in name:
        r = _or([_eq(c, k) for k in (9, 10, 11, 12, 13, 32)])
    elif "WORD" in name:
        r = _or([_in_range(c, 48, 57), _in_range(c, 65, 90), _in_range(c, 97, 122), _eq(c, 95)])
    else:
        raise Unsupported("re category %s" % name)
    if "NOT" in name:
        r = _not(r)
    return r


def _class_test(c, items, flags):
    neg = False
    tests = []
    for op, av in items:
        if op is sre_c.NEGATE:
            neg = True
        elif op is sre_c.LITERAL:
            tests.append(_eq(c, av))
        elif op is sre_c.RANGE:
            tests.append(_in_range(c, av[0], av[1]))
        elif op is sre_c.CATEGORY:
            tests.append(_category(c, av, flags))
        else:
            raise Unsupported("re class item %s" % (op,))
    r = _or(tests)
    return _not(r) if neg else r


def _t(cond):
    if isinstance(cond, bool):
        return cond
    return truth(mkbool(cond))


class SymMatch:
    __symx_model__ = True

    def __init__(self, text, spans, groupindex, T):
        self.text, self.spans, self.groupindex, self.T = text, spans, groupindex, T

    def _g(self, i):
        if isinstance(i, str):
            i = self.groupindex[i]
        sp = self.spans.get(i)
        if sp is None:
            return None
        return V.unwrap(self.T(self.text[sp[0] : sp[1]]))

    def group(self, *idx):
        if not idx:
            idx = (0,)
        r = tuple(self._g(i) for i in idx)
        return r[0] if len(r) == 1 else r

    def groups(self, default=None):
        n = max([0] + [k for k in self.spans if isinstance(k, int)] + list(self.groupindex.values()))
        return tuple(self._g(i) if self._g(i) is not None else default for i in range(1, n + 1))

    def groupdict(self, default=None):
        return {k: (self._g(v) if self._g(v) is not None else default) for k, v in self.groupindex.items()}

    def span(self, i=0):
        return self.spans[i]

    def start(self, i=0):
        return self.spans[i][0]

    def end(self, i=0):
        return self.spans[i][1]

    def __bool__(self):
        return True


def _match_here(ops, i, text, pos, spans, flags, cont):
    """match ops[i:] at pos; on success call cont(pos, spans) which returns a result or None (backtrack)"""
    n = len(text)
    if i == len(ops):
        return cont(pos, spans)
    op, av = ops[i]
    if op is sre_c.LITERAL:
        if pos < n and _t(_eq(text[pos], av)):
            return _match_here(ops, i + 1, text, pos + 1, spans, flags, cont)
        return None
    if op is sre_c.NOT_LITERAL:
        if pos < n and not _t(_eq(text[pos], av)):
            return _match_here(ops, i + 1, text, pos + 1, spans, flags, cont)
        return None
    if op is sre_c.ANY:
        if pos < n and (flags & _re.DOTALL or not _t(_eq(text[pos], 10))):
            return _match_here(ops, i + 1, text, pos + 1, spans, flags, cont)
        return None
    if op is sre_c.IN:
        if pos < n and _t(_class_test(text[pos], av, flags)):
            return _match_here(ops, i + 1, text, pos + 1, spans, flags, cont)
        return None
    if op is sre_c.AT:
        name = str(av)
        if name.endswith("AT_BEGINNING") or name.endswith("AT_BEGINNING_STRING"):
            ok = pos == 0
        elif name.endswith("AT_END_STRING"):
            ok = pos == n
        elif name.endswith("AT_END"):
            ok = pos == n or (pos == n - 1 and _t(_eq(text[pos], 10)))
        else:
            raise Unsupported("re anchor %s" % name)
        if flags & _re.MULTILINE:
            raise Unsupported("re MULTILINE")
        return _match_here(ops, i + 1, text, pos, spans, flags, cont) if ok else None
    if op is sre_c.SUBPATTERN:
        gid, add_flags, del_flags, sub = av
        sub = list(sub)

        def after(p2, sp2):
            sp3 = dict(sp2)
            if gid is not None:
                sp3[gid] = (pos, p2)
            return _match_here(ops, i + 1, text, p2, sp3, flags, cont)

        return _match_here(sub, 0, text, pos, spans, flags, after)
    if op is sre_c.BRANCH:
        for alt in av[1]:
            r = _match_here(list(alt), 0, text, pos, spans, flags,
                            lambda p2, sp2: _match_here(ops, i + 1, text, p2, sp2, flags, cont))
            if r is not None:
                return r
        return None
    if op in (sre_c.MAX_REPEAT, sre_c.MIN_REPEAT):
        lo, hi, sub = av
        sub = list(sub)
        greedy = op is sre_c.MAX_REPEAT
        hi = min(int(hi), n - pos + 1) if hi is not sre_c.MAXREPEAT else n - pos + 1

        def rep(count, p, sp):
            def try_more():
                if count >= hi:
                    return None

                def nxt(p2, sp2):
                    if p2 == p and count >= lo:
                        return None  # empty iteration: stop
                    return rep(count + 1, p2, sp2)

                return _match_here(sub, 0, text, p, sp, flags, nxt)

            def try_stop():
                if count < lo:
                    return None
                return _match_here(ops, i + 1, text, p, sp, flags, cont)

            first, second = (try_more, try_stop) if greedy else (try_stop, try_more)
            r = first()
            if r is not None:
                return r
            return second()

        return rep(0, pos, spans)
    if op in (sre_c.ASSERT, sre_c.ASSERT_NOT):
        direction, sub = av
        sub = list(sub)
        if direction < 0:
            lo, hi = p_width(sub)
            if lo != hi:
                raise Unsupported("variable-width lookbehind")
            start = pos - lo
            ok = False
            if start >= 0:
                ok = _match_here(sub, 0, text, start, {}, flags, lambda p2, sp2: True if p2 == pos else None) is not None
        else:
            ok = _match_here(sub, 0, text, pos, {}, flags, lambda p2, sp2: True) is not None
        if (op is sre_c.ASSERT) != ok:
            return None
        return _match_here(ops, i + 1, text, pos, spans, flags, cont)
    raise Unsupported("re op %s" % (op,))


def p_width(sub):
    sp = sre_parse.SubPattern(sre_parse.State(), list(sub))
    return sp.getwidth()


def _cells(s):
    if isinstance(s, SymStr):
        return s.cells, SymStr
    if isinstance(s, SymBytes):
        return s.cells, SymBytes
    return None, None


def _run(pattern, string, flags, anchored_start, full):
    pattern = V.unwrap(pattern)
    if hasattr(pattern, "pattern"):
        flags |= pattern.flags & ~_re.UNICODE
        pattern = pattern.pattern
    cells, T = _cells(string)
    p = sre_parse.parse(pattern, flags)
    ops = list(p)
    gi = dict(p.state.groupdict)
    flags = p.state.flags | flags
    if flags & _re.IGNORECASE:
        raise Unsupported("re IGNORECASE on symbolic text")
    n = len(cells)
    starts = [0] if anchored_start else range(n + 1)
    for s0 in starts:
        def done(pos, spans):
            if full and pos != n:
                return None
            sp = dict(spans)
            sp[0] = (s0, pos)
            return SymMatch(cells, sp, gi, T)

        r = _match_here(ops, 0, cells, s0, {}, flags, done)
        if r is not None:
            return r
    return None


class SymPattern:
    __symx_model__ = True

    def __init__(self, real):
        self.real = real
        self.pattern = real.pattern
        self.flags = real.flags

    def match(self, s, *a):
        return ReShim.match(self.real, s)

    def search(self, s, *a):
        return ReShim.search(self.real, s)

    def fullmatch(self, s, *a):
        return ReShim.fullmatch(self.real, s)


class ReShim:
    """stands in for the `re` module inside interpreted code"""

    __symx_model__ = True
    IGNORECASE, I, DOTALL, S, MULTILINE, M, VERBOSE, X, ASCII, A = (
        _re.IGNORECASE, _re.I, _re.DOTALL, _re.S, _re.MULTILINE, _re.M, _re.VERBOSE, _re.X, _re.ASCII, _re.A)
    error = _re.error
    Pattern = _re.Pattern
    escape = staticmethod(_re.escape)

    @staticmethod
    def compile(pattern, flags=0):
        return SymPattern(_re.compile(V.unwrap(pattern), flags))

    @staticmethod
    def match(pattern, string, flags=0):
        if isinstance(pattern, SymPattern):
            pattern = pattern.real
        string = V.unwrap(string)
        if not V.is_sym(string):
            return _re.match(V.unwrap(pattern), string, flags)
        return _run(pattern, string, flags, True, False)

    @staticmethod
    def fullmatch(pattern, string, flags=0):
        if isinstance(pattern, SymPattern):
            pattern = pattern.real
        string = V.unwrap(string)
        if not V.is_sym(string):
            return _re.fullmatch(V.unwrap(pattern), string, flags)
        return _run(pattern, string, flags, True, True)

    @staticmethod
    def search(pattern, string, flags=0):
        if isinstance(pattern, SymPattern):
            pattern = pattern.real
        string = V.unwrap(string)
        if not V.is_sym(string):
            return _re.search(V.unwrap(pattern), string, flags)
        return _run(pattern, string, flags, False, False)


def _sub(pattern, repl, string, count=0, flags=0):
    if isinstance(pattern, SymPattern):
        pattern = pattern.real
    string = V.unwrap(string)
    repl = V.unwrap(repl)
    if not V.is_sym(string):
        return _re.sub(V.unwrap(pattern), repl, string, count, flags)
    if callable(repl) or V.is_sym(repl):
        raise Unsupported("re.sub with callable/symbolic replacement")
    pat = pattern.pattern if hasattr(pattern, "pattern") else pattern
    if hasattr(pattern, "flags"):
        flags |= pattern.flags & ~_re.UNICODE
    # expand the template once (no group references supported)
    probe = _re.compile("(?:x)")
    try:
        lit = probe.sub(repl, "x")
    except (_re.error, IndexError):
        raise Unsupported("re.sub template with group references")
    cells, T = _cells(string)
    p = sre_parse.parse(pat, flags)
    ops = list(p)
    fl = p.state.flags | flags
    out = []
    pos, n, done = 0, len(cells), 0
    litc = [ord(c) for c in lit] if T is SymStr else list(lit)
    while pos <= n:
        m = None
        if not count or done < count:
            m = _match_here(ops, 0, cells, pos, {}, fl, lambda p2, sp2: p2)
        if m is not None and m > pos:
            out.extend(litc)
            pos = m
            done += 1
            continue
        if m is not None and m == pos:
            raise Unsupported("re.sub with an empty match on symbolic text")
        if pos < n:
            out.append(cells[pos])
        pos += 1
    return V.unwrap(T(out))


ReShim.sub = staticmethod(_sub)
SymPattern.sub = lambda self, repl, string, count=0: _sub(self.real, repl, string, count)

for _f in (ReShim.match, ReShim.fullmatch, ReShim.search, ReShim.compile, ReShim.sub):
    _f.__symx_model__ = True

DEFAULT_OVERRIDES["re"] = ReShim


def _call_hook(self, f, args, kwargs):
    selfobj = getattr(f, "__self__", None)
    if isinstance(selfobj, _re.Pattern) and args and V.is_sym(V.unwrap(args[0])):
        name = f.__name__
        if name in ("match", "fullmatch", "search"):
            return getattr(ReShim, name)(selfobj, args[0])
        if name == "sub":
            return _sub(selfobj, *args, **kwargs)
        raise Unsupported("re.Pattern.%s on symbolic text" % name)
    return NOT_HANDLED


CALL_HOOKS.append(_call_hook)
