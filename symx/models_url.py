"""urllib.parse model for the request-target shapes the repository hands to urlparse(): a bytes/str target that starts
with a single '/' (origin-form). Mirrors CPython 3.12 urlsplit+urlparse for that shape: fragment at the first '#',
query at the first '?', and ';params' split off the LAST path segment (urlparse only). Other shapes are Unsupported on
symbolic input; concrete input goes to the real functions."""
import urllib.parse as _up

import z3

from . import values as V
from .values import *  # noqa: F401,F403
from .interp import DEFAULT_OVERRIDES


class SymParseResult:
    __symx_model__ = True

    def __init__(self, T, scheme, netloc, path, params, query, fragment):
        self.scheme, self.netloc, self.path, self.params, self.query, self.fragment = (
            V.unwrap(T(x)) for x in (scheme, netloc, path, params, query, fragment))

    def __iter__(self):
        return iter((self.scheme, self.netloc, self.path, self.params, self.query, self.fragment))


def _is(c, ch):
    k = ord(ch)
    if isinstance(c, int):
        return c == k
    return truth(mkbool(c == k))


def _split(u):
    T = type(u)
    cells = u.cells
    if not cells or not _is(cells[0], "/") or (len(cells) > 1 and _is(cells[1], "/")):
        raise Unsupported("urlparse model: target not in origin-form ('/' + not '/')")
    for c in cells:
        # urlsplit strips tab/CR/LF anywhere and leading C0/space: outside the modelled shape
        if isinstance(c, int):
            bad = c in (9, 10, 13)
        else:
            bad = truth(mkbool(z3.Or(c == 9, c == 10, c == 13)))
        if bad:
            raise Unsupported("urlparse model: tab/CR/LF inside the target")
    frag = []
    for i, c in enumerate(cells):
        if _is(c, "#"):
            cells, frag = cells[:i], cells[i + 1:]
            break
    query = []
    for i, c in enumerate(cells):
        if _is(c, "?"):
            cells, query = cells[:i], cells[i + 1:]
            break
    return T, cells, query, frag


def m_urlparse(url, scheme="", allow_fragments=True):
    u = V.unwrap(url)
    if not V.is_sym(u):
        return _up.urlparse(u, scheme, allow_fragments)
    T, cells, query, frag = _split(u)
    # urlparse: params split at the first ';' of the last path segment
    path, params = cells, []
    semi = [i for i, c in enumerate(cells) if _is(c, ";")]
    if semi:
        slashes = [i for i, c in enumerate(cells) if _is(c, "/")]
        last_slash = slashes[-1] if slashes else -1
        after = [i for i in semi if i > last_slash]
        if after:
            i = after[0]
            path, params = cells[:i], cells[i + 1:]
    return SymParseResult(T, [], [], path, params, query, frag)


def _contract_result(u, fields):
    """totality harnesses only (models_str.CONTRACT_MODE): for a target outside the modelled origin-form, urlsplit/urlparse
    "return a result whose components are strings, or raise ValueError" (e.g. 'Invalid IPv6 URL'); both are explored, the
    component values are not observables there"""
    if truth(mkbool(z3.Bool(Ctx.cur.fresh("urlsplit_ok")))):
        r = SymParseResult(type(u), [], [], u.cells, [], [], [])
        if fields == 5:
            r.params = None
        return r
    raise ValueError("Invalid URL (contract model)")


def m_urlsplit(url, scheme="", allow_fragments=True):
    u = V.unwrap(url)
    if not V.is_sym(u):
        return _up.urlsplit(u, scheme, allow_fragments)
    from . import models_str as _ms

    try:
        T, cells, query, frag = _split(u)
    except Unsupported:
        if _ms.CONTRACT_MODE:
            return _contract_result(u, 5)
        raise
    r = SymParseResult(T, [], [], cells, [], query, frag)
    r.params = None
    return r


def m_parse_qsl(qs, *a, **k):
    q = V.unwrap(qs)
    if V.is_sym(q):
        from . import models_str as _ms

        if _ms.CONTRACT_MODE:
            return []  # parse_qsl (non-strict) never raises; the pairs are not observables of a totality harness
        raise Unsupported("parse_qsl on a symbolic query string (queries are enumerated concretely)")
    return _up.parse_qsl(q, *a, **k)


def m_unquote_to_bytes(string):
    """urllib.parse.unquote_to_bytes on (partly) symbolic input: '%' followed by two hex digits becomes that byte, everything
    else is kept (invalid escapes are left alone) — forks on the three characters involved"""
    u = V.unwrap(string)
    if not V.is_sym(u):
        return _up.unquote_to_bytes(u)
    cells = seq_cells(u, type(u))
    if isinstance(u, SymStr):
        for c in cells:
            if not (isinstance(c, int) and c < 128) and not truth(mkbool(z3.ULT(c, 128))):
                raise Unsupported("unquote_to_bytes of symbolic non-ASCII text")
        cells = [c if isinstance(c, int) else z3.Extract(7, 0, c) for c in cells]
    from .models_str import hexval

    out = []
    i = 0
    while i < len(cells):
        c = cells[i]
        if _is(c, "%") and i + 2 < len(cells) + 0 and i + 2 <= len(cells) - 1 + 0:
            ok1, v1 = hexval(cells[i + 1] if isinstance(cells[i + 1], int) else z3.ZeroExt(13, cells[i + 1]))
            ok2, v2 = hexval(cells[i + 2] if isinstance(cells[i + 2], int) else z3.ZeroExt(13, cells[i + 2]))
            if truth(mkbool(ok1) if not isinstance(ok1, bool) else ok1) and truth(mkbool(ok2) if not isinstance(ok2, bool) else ok2):
                b = binop("+", binop("*", v1, 16), v2)
                out.append(b if isinstance(b, int) else z3.simplify(z3.Extract(7, 0, b.e)))
                i += 3
                continue
        out.append(c)
        i += 1
    return V.unwrap(SymBytes(out))


for _f in (m_urlparse, m_urlsplit, m_parse_qsl, m_unquote_to_bytes):
    _f.__symx_model__ = True

DEFAULT_OVERRIDES.update(urlparse=m_urlparse, urlsplit=m_urlsplit, parse_qsl=m_parse_qsl, unquote_to_bytes=m_unquote_to_bytes)
