"""urllib.parse model for the request-target shapes the repository hands to urlparse(): a bytes/str target that starts
with a single '/' (origin-form). Mirrors CPython 3.12 urlsplit+urlparse for that shape: fragment at the first '#',
query at the first '?', and ';params' split off the LAST path segment (urlparse only). Other shapes are Unsupported on
symbolic input; concrete input goes to the real functions."""
import urllib.parse as _up

import z3

from . import values as V
from .values import *  # noqa: F401,F403
from .interp import DEFAULT_OVERRIDES


class SymParseResult:
    __symx_model__ = True

    def __init__(self, T, scheme, netloc, path, params, query, fragment):
        self.scheme, self.netloc, self.path, self.params, self.query, self.fragment = (
            V.unwrap(T(x)) for x in (scheme, netloc, path, params, query, fragment))

    def __iter__(self):
        return iter((self.scheme, self.netloc, self.path, self.params, self.query, self.fragment))


def _is(c, ch):
    k = ord(ch)
    if isinstance(c, int):
        return c == k
    return truth(mkbool(c == k))


def _split(u):
    T = type(u)
    cells = u.cells
    if not cells or not _is(cells[0], "/") or (len(cells) > 1 and _is(cells[1], "/")):
        raise Unsupported("urlparse model: target not in origin-form ('/' + not '/')")
    for c in cells:
        # urlsplit strips tab/CR/LF anywhere and leading C0/space: outside the modelled shape
        if isinstance(c, int):
            bad = c in (9, 10, 13)
        else:
            bad = truth(mkbool(z3.Or(c == 9, c == 10, c == 13)))
        if bad:
            raise Unsupported("urlparse model: tab/CR/LF inside the target")
    frag = []
    for i, c in enumerate(cells):
        if _is(c, "#"):
            cells, frag = cells[:i], cells[i + 1:]
            break
    query = []
    for i, c in enumerate(cells):
        if _is(c, "?"):
            cells, query = cells[:i], cells[i + 1:]
            break
    return T, cells, query, frag


def m_urlparse(url, scheme="", allow_fragments=True):
    u = V.unwrap(url)
    if not V.is_sym(u):
        return _up.urlparse(u, scheme, allow_fragments)
    T, cells, query, frag = _split(u)
    # urlparse: params split at the first ';' of the last path segment
    path, params = cells, []
    semi = [i for i, c in enumerate(cells) if _is(c, ";")]
    if semi:
        slashes = [i for i, c in enumerate(cells) if _is(c, "/")]
        last_slash = slashes[-1] if slashes else -1
        after = [i for i in semi if i > last_slash]
        if after:
            i = after[0]
            path, params = cells[:i], cells[i + 1:]
    return SymParseResult(T, [], [], path, params, query, frag)


def _contract_result(u, fields):
    """totality harnesses only (models_str.CONTRACT_MODE): for a target outside the modelled origin-form, urlsplit/urlparse
    "return a result whose components are strings, or raise ValueError" (e.g. 'Invalid IPv6 URL'); both are explored, the
    component values are not observables there"""
    if truth(mkbool(z3.Bool(Ctx.cur.fresh("urlsplit_ok")))):
        r = SymParseResult(type(u), [], [], u.cells, [], [], [])
        if fields == 5:
            r.params = None
        return r
    raise ValueError("Invalid URL (contract model)")


def m_urlsplit(url, scheme="", allow_fragments=True):
    u = V.unwrap(url)
    if not V.is_sym(u):
        return _up.urlsplit(u, scheme, allow_fragments)
    from . import models_str as _ms

    try:
        T, cells, query, frag = _split(u)
    except Unsupported:
        if _ms.CONTRACT_MODE:
            return _contract_result(u, 5)
        raise
    r = SymParseResult(T, [], [], cells, [], query, frag)
    r.params = None
    return r


def m_parse_qsl(qs, *a, **k):
    q = V.unwrap(qs)
    if V.is_sym(q):
        from . import models_str as _ms

        if _ms.CONTRACT_MODE:
            return []  # parse_qsl (non-strict) never raises; the pairs are not observables of a totality harness
        raise Unsupported("parse_qsl on a symbolic query string (queries are enumerated concretely)")
    return _up.parse_qsl(q, *a, **k)


for _f in (m_urlparse, m_urlsplit, m_parse_qsl):
    _f.__symx_model__ = True

DEFAULT_OVERRIDES.update(urlparse=m_urlparse, urlsplit=m_urlsplit, parse_qsl=m_parse_qsl)
