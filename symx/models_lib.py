"""library models: base64, random, namedtuple passthrough"""
import base64
import random

import z3

from . import values as symx
from .values import *  # noqa: F401,F403
from .interp import Interp, CALL_HOOKS, NOT_HANDLED, DEFAULT_OVERRIDES

STD = "ABCDEFGHIJKLMNOPQRSTUVWXYZabcdefghijklmnopqrstuvwxyz0123456789+/"
URL = "ABCDEFGHIJKLMNOPQRSTUVWXYZabcdefghijklmnopqrstuvwxyz0123456789-_"


def sextet_to_char(s6, alphabet):
    """6-bit bv -> 8-bit ascii"""
    x = z3.ZeroExt(2, s6)
    c62, c63 = ord(alphabet[62]), ord(alphabet[63])
    return z3.If(z3.ULT(x, 26), x + 65, z3.If(z3.ULT(x, 52), x + 71, z3.If(z3.ULT(x, 62), x - 4, z3.If(x == 62, z3.BitVecVal(c62, 8), z3.BitVecVal(c63, 8)))))


def char_to_sextet(c, alphabet):
    """8-bit -> (valid bool, 6-bit)"""
    c62, c63 = ord(alphabet[62]), ord(alphabet[63])
    up = z3.And(z3.UGE(c, 65), z3.ULE(c, 90))
    lo = z3.And(z3.UGE(c, 97), z3.ULE(c, 122))
    dg = z3.And(z3.UGE(c, 48), z3.ULE(c, 57))
    a = c == c62
    b = c == c63
    v = z3.If(up, c - 65, z3.If(lo, c - 71, z3.If(dg, c + 4, z3.If(a, z3.BitVecVal(62, 8), z3.BitVecVal(63, 8)))))
    return z3.Or(up, lo, dg, a, b), z3.Extract(5, 0, v)


def cellbv(c):
    return z3.BitVecVal(c, 8) if isinstance(c, int) else c


def b64encode_model(alphabet):
    def enc(data, *a, **k):
        cells = seq_cells(data, SymBytes)
        if all(isinstance(c, int) for c in cells):
            f = base64.b64encode if alphabet is STD else base64.urlsafe_b64encode
            return f(bytes(cells))
        out = []
        for i in range(0, len(cells), 3):
            grp = [cellbv(c) for c in cells[i : i + 3]]
            n = len(grp)
            bits = z3.Concat(*grp) if n > 1 else grp[0]
            pad = (3 - n) % 3
            if pad:
                bits = z3.Concat(bits, z3.BitVecVal(0, 8 * pad))
            for j in range(4):
                if j <= n:
                    s6 = z3.Extract(23 - 6 * j, 18 - 6 * j, bits)
                    out.append(z3.simplify(sextet_to_char(s6, alphabet)))
                else:
                    out.append(ord("="))
        res = SymBytes([c.as_long() if z3.is_bv_value(c) else c for c in out])
        # provenance: decoding exactly these cells again gives `data` back (b64decode(b64encode(x)) == x, which the bit-level
        # model also yields — validated each run — but only after one solver query per character)
        Ctx.cur.__dict__.setdefault("b64_cache", {})[(id(alphabet), _cell_key(res.cells))] = list(cells)
        return res

    enc.__symx_model__ = True
    return enc


def _cell_key(cells):
    return tuple(c if isinstance(c, int) else ("z", c.get_id()) for c in cells)


def b64decode_model(alphabet):
    def dec(data, *a, **k):
        """non-validating decode as CPython: characters outside the alphabet are discarded, '=' handling per binascii.
        Model restricted to inputs whose symbolic cells are forked into valid/invalid; padding semantics follow
        binascii.a2b_base64(strict_mode=False)."""
        cells = seq_cells(data, SymBytes)
        if all(isinstance(c, int) for c in cells):
            f = base64.b64decode if alphabet is STD else base64.urlsafe_b64decode
            return f(bytes(cells))
        cache = Ctx.cur.__dict__.get("b64_cache", {})
        trial = list(cells)
        for _ in range(3):
            # (excess '=' behind a complete encoding is ignored by the non-strict decoder: `data + b"=="` is a common idiom)
            hit = cache.get((id(alphabet), _cell_key(trial)))
            if hit is not None:
                return unwrap(SymBytes(list(hit)))
            if trial and trial[-1] == 61:
                trial = trial[:-1]
            else:
                break
        sext = []
        npad = 0
        # binascii non-strict: on '=' : if quad_pos>=2 and enough pads -> stop; we model the common shape:
        # valid chars accumulate; '=' counted; other chars ignored.
        i = 0
        for c in cells:
            if isinstance(c, int):
                ch = chr(c)
                if ch == "=":
                    npad += 1
                    # a2b_base64: pad ends data when quad_pos >= 2 and quad_pos + npad >= 4
                    if len(sext) % 4 >= 2 and (len(sext) % 4) + npad >= 4:
                        break
                    continue
                if ch in alphabet:
                    sext.append(z3.BitVecVal(alphabet.index(ch), 6))
                    npad = 0
                continue
            ok, v = char_to_sextet(c, alphabet)
            if truth(mkbool(ok)):
                sext.append(v)
                npad = 0
            elif truth(mkbool(c == ord("="))):
                npad += 1
                if len(sext) % 4 >= 2 and (len(sext) % 4) + npad >= 4:
                    break
        q = len(sext) % 4
        if q == 1:
            import binascii

            raise binascii.Error("Invalid base64-encoded string")
        if q != 0 and q + npad < 4:
            import binascii

            raise binascii.Error("Incorrect padding")
        out = []
        for i in range(0, len(sext) - q, 4):
            bits = z3.Concat(*sext[i : i + 4])
            out += [z3.Extract(23, 16, bits), z3.Extract(15, 8, bits), z3.Extract(7, 0, bits)]
        if q == 2:
            bits = z3.Concat(sext[-2], sext[-1])
            out.append(z3.Extract(11, 4, bits))
        elif q == 3:
            bits = z3.Concat(sext[-3], sext[-2], sext[-1])
            out += [z3.Extract(17, 10, bits), z3.Extract(9, 2, bits)]
        out = [z3.simplify(c) for c in out]
        return SymBytes([c.as_long() if z3.is_bv_value(c) else c for c in out])

    dec.__symx_model__ = True
    return dec


class Base64Shim:
    b64encode = staticmethod(b64encode_model(STD))
    urlsafe_b64encode = staticmethod(b64encode_model(URL))
    b64decode = staticmethod(b64decode_model(STD))
    urlsafe_b64decode = staticmethod(b64decode_model(URL))


class RandomShim:
    """nondeterministic `random`: every draw is a fresh symbolic value in the documented range. The draw names are
    deterministic (rand!<n>), so in native mode (replay) the same object returns the values of the solver model."""

    __symx_model__ = True

    @staticmethod
    def _name(kind):
        """draw names are numbered by their own counter (not Ctx.fresh): symbolic and native runs then agree on them
        even when other models (hash stubs ...) create fresh names in one mode only"""
        ctx = Ctx.cur
        n = ctx.__dict__.get("rand_names", 0) + 1
        ctx.__dict__["rand_names"] = n
        return "%s!r%d" % (kind, n)

    @staticmethod
    def _draw(kind, params, v):
        """after seed(s) the generator is a function of (s, draw number, kind of draw): equal seeds give equal draws —
        nothing else is assumed. Every drawing method consumes one draw number."""
        ctx = Ctx.cur
        st = getattr(ctx, "rand_state", None)
        if st is None or is_native():
            return v
        seed, n = st
        ctx.rand_state = (seed, n + 1)
        apps = ctx.__dict__.setdefault("rand_apps", [])
        for seed2, n2, kind2, params2, v2 in apps:
            if n2 == n and kind2 == kind and params2 == params:
                same = tobool_expr(compare("==", seed, seed2))
                eq = tobool_expr(deep_eq(v, v2))
                eq = z3.BoolVal(eq) if isinstance(eq, bool) else eq
                if same is True:
                    ctx.add_c(eq)
                elif same is not False:
                    ctx.add_c(z3.Implies(same, eq))
        apps.append((seed, n, kind, params, v))
        return v

    @staticmethod
    def getrandbits(k):
        k = concretize(k)
        ctx = Ctx.cur
        v = sym_int(RandomShim._name("rand%d" % k), 0, (1 << k) - 1)
        if not hasattr(ctx, "draws"):
            ctx.draws = []
        ctx.draws.append(v)
        return RandomShim._draw("getrandbits", k, v)

    @staticmethod
    def randrange(a, b=None, step=1):
        if b is None:
            a, b = 0, a
        a, b = concretize(a), concretize(b)
        if step != 1:
            raise Unsupported("randrange step")
        if b <= a:
            raise ValueError("empty range for randrange()")
        return RandomShim._draw("randrange", (a, b), sym_int(RandomShim._name("randrange"), a, b - 1))

    @staticmethod
    def randint(a, b):
        return RandomShim.randrange(a, binop("+", b, 1))

    @staticmethod
    def choice(seq):
        seq = unwrap(seq)
        n = len(seq)
        if n == 0:
            raise IndexError("Cannot choose from an empty sequence")
        if isinstance(seq, (str, bytes)) and not is_native():
            # one symbolic cell constrained to the alphabet (no fork per element)
            name = RandomShim._name("choice")
            idx = RandomShim._draw("choice", n, sym_int(name, 0, n - 1))
            if isinstance(idx, int):
                return seq[idx] if isinstance(seq, str) else seq[idx]
            w = 21 if isinstance(seq, str) else 8
            codes = [ord(c) for c in seq] if isinstance(seq, str) else list(seq)
            cell = z3.BitVec(name + ".cell", w)
            e = z3.BitVecVal(codes[-1], w)
            for i in range(n - 2, -1, -1):
                e = z3.If(idx.e == i, z3.BitVecVal(codes[i], w), e)
            Ctx.cur.add_c(cell == e)
            if isinstance(seq, str):
                return SymStr([cell])
            return SymInt.from_byte(cell)
        idx = RandomShim._draw("choice", n, sym_int(RandomShim._name("choice"), 0, n - 1))
        return seq[concretize(idx)]

    @staticmethod
    def uniform(a, b):
        """documented contract: a value N with a <= N <= b (or b <= N <= a). Decided over the rationals (SymReal)."""
        r = sym_real(RandomShim._name("uniform"))
        if is_native():
            lo, hi = (a, b) if a <= b else (b, a)
            return float(min(max(r, lo), hi)) if isinstance(lo, (int, float)) and isinstance(hi, (int, float)) else float(r)
        lo_ok = SymReal.cmp("<=", a, r)
        hi_ok = SymReal.cmp("<=", r, b)
        fwd = z3.And(tobool_expr(lo_ok) if not isinstance(lo_ok, bool) else z3.BoolVal(lo_ok),
                     tobool_expr(hi_ok) if not isinstance(hi_ok, bool) else z3.BoolVal(hi_ok))
        lo2 = SymReal.cmp("<=", b, r)
        hi2 = SymReal.cmp("<=", r, a)
        bwd = z3.And(tobool_expr(lo2) if not isinstance(lo2, bool) else z3.BoolVal(lo2),
                     tobool_expr(hi2) if not isinstance(hi2, bool) else z3.BoolVal(hi2))
        Ctx.cur.assume(mkbool(z3.Or(fwd, bwd)))
        st = getattr(Ctx.cur, "rand_state", None)
        if st is not None:
            Ctx.cur.rand_state = (st[0], st[1] + 1)  # consumes a draw
        return r

    @staticmethod
    def seed(*a):
        if not is_native():
            Ctx.cur.rand_state = (a[0] if a else None, 0)
        return None

    @staticmethod
    def random():
        raise Unsupported("random.random (floating point)")


for _n in ("getrandbits", "randrange", "randint", "choice", "uniform", "seed", "random"):
    getattr(RandomShim, _n).__symx_model__ = True


DEFAULT_OVERRIDES["base64"] = Base64Shim
DEFAULT_OVERRIDES["random"] = RandomShim


# ----------------------------------------------------------------------------------------------------------------------
# mappings with symbolic keys
# ----------------------------------------------------------------------------------------------------------------------


def key_eq(a, b):
    """bool/SymBool: are two mapping keys equal (Python == semantics on the symbolic layer)"""
    from . import values as V

    return V.compare("==", a, b)


class SymOrderedDict:
    """OrderedDict / dict with possibly symbolic keys: association list, lookups fork on key equality.
    A repeated key keeps its first position and takes the last value (dict semantics)."""

    __symx_model__ = True

    def __init__(self, *a, **kw):
        self.pairs = []
        if a:
            src = a[0]
            it = src.items() if hasattr(src, "items") else src
            for k, v in it:
                self[k] = v
        for k, v in kw.items():
            self[k] = v

    def _find(self, k):
        for i, (k2, _) in enumerate(self.pairs):
            if truth(key_eq(k, k2)):
                return i
        return -1

    def __setitem__(self, k, v):
        i = self._find(k)
        if i >= 0:
            self.pairs[i] = (self.pairs[i][0], v)
        else:
            self.pairs.append((k, v))

    def __getitem__(self, k):
        i = self._find(k)
        if i < 0:
            raise KeyError(k if not is_sym(k) else "<symbolic>")
        return self.pairs[i][1]

    def __delitem__(self, k):
        i = self._find(k)
        if i < 0:
            raise KeyError("<key>")
        del self.pairs[i]

    def get(self, k, default=None):
        i = self._find(k)
        return default if i < 0 else self.pairs[i][1]

    def __contains__(self, k):
        return self._find(k) >= 0

    def __len__(self):
        return len(self.pairs)

    def __iter__(self):
        return iter([k for k, _ in self.pairs])

    def keys(self):
        return [k for k, _ in self.pairs]

    def values(self):
        return [v for _, v in self.pairs]

    def items(self):
        return list(self.pairs)

    def setdefault(self, k, d=None):
        i = self._find(k)
        if i < 0:
            self.pairs.append((k, d))
            return d
        return self.pairs[i][1]

    def update(self, other=(), **kw):
        it = other.items() if hasattr(other, "items") else other
        for k, v in it:
            self[k] = v
        for k, v in kw.items():
            self[k] = v

    def copy(self):
        return SymOrderedDict(self.pairs)

    def __repr__(self):
        return "SymOrderedDict(%r)" % (self.pairs,)


class SymMappingProxy:
    """types.MappingProxyType over a SymOrderedDict: read-only view"""

    __symx_model__ = True

    def __init__(self, m):
        if not isinstance(m, (SymOrderedDict, dict)):
            raise TypeError("mappingproxy() argument must be a mapping")
        self._m = m

    def __getitem__(self, k):
        return self._m[k]

    def __setitem__(self, k, v):
        raise TypeError("'mappingproxy' object does not support item assignment")

    def __delitem__(self, k):
        raise TypeError("'mappingproxy' object does not support item deletion")

    def get(self, k, default=None):
        return self._m.get(k, default)

    def __contains__(self, k):
        return k in self._m

    def __len__(self):
        return len(self._m)

    def __iter__(self):
        return iter(self._m)

    def keys(self):
        return self._m.keys()

    def values(self):
        return self._m.values()

    def items(self):
        return self._m.items()

    def copy(self):
        return self._m.copy()


def sym_dict_get(d, key, default=None, strict=False):
    """lookup of a possibly symbolic key in a real dict: forks on equality with each key in order"""
    for k, v in d.items():
        if truth(key_eq(key, k)):
            return v
    if strict:
        raise KeyError("<symbolic key>")
    return default


class IDict(dict):
    """dict created by interpreted code ({} displays, dict()): a real dict while all keys are concrete; switches to an
    association list (insertion order kept) as soon as a symbolic key is stored. Lookups then fork on key equality."""

    __symx_model__ = True

    def __init__(self, *a, **kw):
        dict.__init__(self)
        self._pairs = None
        if a or kw:
            src = a[0] if a else ()
            it = src.items() if hasattr(src, "items") else src
            for k, v in it:
                self[k] = v
            for k, v in kw.items():
                self[k] = v

    def _symbolic(self):
        return self._pairs is not None

    def _switch(self):
        if self._pairs is None:
            self._pairs = list(dict.items(self))
            dict.clear(self)

    def _find(self, k):
        for i, (k2, _) in enumerate(self._pairs):
            if truth(key_eq(k, k2)):
                return i
        return -1

    def __setitem__(self, k, v):
        from . import values as V

        k = V.unwrap(k)
        if self._pairs is None and V.deep_concrete(k):
            return dict.__setitem__(self, k, v)
        self._switch()
        i = self._find(k)
        if i >= 0:
            self._pairs[i] = (self._pairs[i][0], v)
        else:
            self._pairs.append((k, v))

    def __getitem__(self, k):
        from . import values as V

        k = V.unwrap(k)
        if self._pairs is None:
            if V.deep_concrete(k):
                return dict.__getitem__(self, k)
            return sym_dict_get(self, k, strict=True)
        i = self._find(k)
        if i < 0:
            raise KeyError("<key>")
        return self._pairs[i][1]

    def get(self, k, default=None):
        try:
            return self[k]
        except KeyError:
            return default

    def __contains__(self, k):
        try:
            self[k]
            return True
        except KeyError:
            return False

    def __len__(self):
        return dict.__len__(self) if self._pairs is None else len(self._pairs)

    def __iter__(self):
        return dict.__iter__(self) if self._pairs is None else iter([k for k, _ in self._pairs])

    def keys(self):
        return dict.keys(self) if self._pairs is None else [k for k, _ in self._pairs]

    def values(self):
        return dict.values(self) if self._pairs is None else [v for _, v in self._pairs]

    def items(self):
        return dict.items(self) if self._pairs is None else list(self._pairs)

    def copy(self):
        return IDict(self.items())

    def update(self, other=(), **kw):
        it = other.items() if hasattr(other, "items") else other
        for k, v in it:
            self[k] = v
        for k, v in kw.items():
            self[k] = v

    def setdefault(self, k, d=None):
        if k in self:
            return self[k]
        self[k] = d
        return d

    def pop(self, k, *d):
        if self._pairs is None:
            return dict.pop(self, k, *d)
        i = self._find(k)
        if i < 0:
            if d:
                return d[0]
            raise KeyError("<key>")
        return self._pairs.pop(i)[1]

    def __eq__(self, other):
        if self._pairs is None and not (isinstance(other, IDict) and other._symbolic()):
            return dict.__eq__(self, other)
        raise Unsupported("== on a mapping with symbolic keys (use mapping_eq)")

    __hash__ = None

    def __repr__(self):
        return dict.__repr__(self) if self._pairs is None else "IDict(%r)" % (self._pairs,)


def _idict_concrete(v):
    if isinstance(v, IDict) and v._symbolic():
        return False
    if isinstance(v, (SymOrderedDict, SymMappingProxy)):
        return False
    return NOT_HANDLED


symx.CONCRETE_HOOKS.append(_idict_concrete)


class DictShim:
    """stands in for the builtin `dict` name inside interpreted code"""

    __symx_model__ = True

    def __new__(cls, *a, **kw):
        return IDict(*a, **kw)

    @staticmethod
    def fromkeys(keys, value=None):
        d = IDict()
        for k in m_iter(keys):
            d[k] = value
        return d


symx.BUILTIN_MODELS["dict"] = DictShim
symx.SHIM_TO_BUILTIN[DictShim] = dict


# ----------------------------------------------------------------------------------------------------------------------
# ipaddress, itertools/dict plumbing
# ----------------------------------------------------------------------------------------------------------------------


class SymIPv4:
    __symx_model__ = True

    def __init__(self, v):
        self.v = v


class IpaddressShim:
    __symx_model__ = True

    @staticmethod
    def IPv4Address(x):
        import ipaddress

        x = unwrap(x)
        if isinstance(x, SymInt):
            if truth(SymInt.cmp("<", x, 0)) or truth(SymInt.cmp(">=", x, 1 << 32)):
                raise ipaddress.AddressValueError("out of range")
            return SymIPv4(x)
        if isinstance(x, SymBytes):
            if len(x.cells) != 4:
                raise ipaddress.AddressValueError("need 4 bytes")
            return SymIPv4(m_int_from_bytes(x, "big"))
        return ipaddress.IPv4Address(x)


IpaddressShim.IPv4Address.__symx_model__ = True


def _str_ipv4(x):
    if isinstance(x, SymIPv4):
        from .models_str import int_to_str

        cells = []
        for i in range(3, -1, -1):
            octet = binop("%", binop("//", x.v, 256**i), 256)
            if cells:
                cells.append(46)
            cells.extend(seq_cells(int_to_str(octet) if not isinstance(octet, int) else str(octet), SymStr))
        return SymStr(cells)
    return NOT_HANDLED


from . import models_str as _ms  # noqa: E402

_ms.STR_HOOKS.append(_str_ipv4)
DEFAULT_OVERRIDES["ipaddress"] = IpaddressShim


def _plumbing_hook(self, f, args, kwargs):
    import itertools

    if f is itertools.zip_longest:
        return itertools.zip_longest(*[m_iter(a) for a in args], **kwargs)
    if f is itertools.chain:
        return itertools.chain(*[m_iter(a) for a in args])
    if getattr(f, "__name__", "") == "fromkeys" and getattr(f, "__self__", None) in (dict, IDict):
        d = IDict()
        for k in m_iter(args[0]):
            d[k] = args[1] if len(args) > 1 else None
        return d
    return NOT_HANDLED


CALL_HOOKS.append(_plumbing_hook)


# ----------------------------------------------------------------------------------------------------------------------
# collections.Counter over (possibly symbolic) byte strings — used by guardrails.find_xor_key_candidates
# ----------------------------------------------------------------------------------------------------------------------


class SymCounter:
    """Counter whose keys are byte strings with symbolic cells. Classes of equal keys are decided, not assumed: a new key is
    compared with every existing class (syntactically identical cells = same class without a query; otherwise the equality is a
    decision of the path, i.e. forks when both outcomes are feasible). Counts are therefore concrete on every path.
    most_common follows CPython: descending count, insertion order among equal counts."""

    __symx_model__ = True

    def __init__(self, *a, **k):
        if a or k:
            raise Unsupported("Counter(...) with arguments")
        self.keys_ = []  # SymBytes | bytes, insertion order
        self.skeys = {}  # structural key -> class index
        self.counts = []

    def _norm(self, key):
        key = unwrap(key)
        if isinstance(key, (bytes, bytearray)):
            return SymBytes(list(key))
        if isinstance(key, SymBytes):
            return key
        raise Unsupported("Counter key of type %s" % type(key).__name__)

    def _add(self, key, n=1):
        key = self._norm(key)
        sk = _cell_key(key.cells)
        i = self.skeys.get(sk)
        if i is None:
            for j, other in enumerate(self.keys_):
                if len(other.cells) != len(key.cells):
                    continue
                e = key.eq(other)
                if e is False:
                    continue
                if e is True or truth(e):
                    i = j
                    break
            if i is None:
                i = len(self.keys_)
                self.keys_.append(key)
                self.counts.append(0)
            self.skeys[sk] = i
        self.counts[i] += n

    def update(self, iterable=None):
        if iterable is None:
            return
        for k in m_iter(iterable):
            self._add(k)

    def __setitem__(self, k, v):
        raise Unsupported("Counter item assignment")

    def __getitem__(self, k):
        key = self._norm(k)
        for j, other in enumerate(self.keys_):
            if len(other.cells) == len(key.cells):
                e = key.eq(other)
                if e is True or (e is not False and truth(e)):
                    return self.counts[j]
        return 0

    def __len__(self):
        return len(self.keys_)

    def most_common(self, n=None):
        order = sorted(range(len(self.keys_)), key=lambda i: -self.counts[i])  # stable: insertion order among ties
        if n is not None:
            order = order[:n]
        return [(self.keys_[i], self.counts[i]) for i in order]
