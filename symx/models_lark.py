"""lark-side models for symx: SymToken (str-like token with symbolic text), Token()/Tree() construction, Reconstructor stub"""
import z3
import lark

from . import values as symx
from .values import *  # noqa: F401,F403
from .interp import Interp, CALL_HOOKS, GETATTR_HOOKS, NOT_HANDLED


class SymToken:
    """lark.Token with symbolic text. Behaves like its text (str subclass in lark) plus .type/.value"""

    def __init__(self, type_, value):
        self.type = type_
        self.value = value if isinstance(value, SymStr) else SymStr([ord(c) for c in value])

    def __repr__(self):
        return "SymToken(%r, %r)" % (self.type, self.value)


def text_of(x):
    if isinstance(x, SymToken):
        return x.value
    return x


def _orig_compare(op, a, b):
    return symx.compare(op, a, b)


def compare_tok(op, a, b):
    if isinstance(a, SymToken) or isinstance(b, SymToken):
        a2, b2 = text_of(a), text_of(b)
        if op in ("in", "not in") and isinstance(b2, str) and isinstance(a2, SymStr):
            # substring test of symbolic text in a concrete string: compare against every substring of that length
            n = len(a2.cells)
            r = False
            for i in range(0, len(b2) - n + 1):
                if truth(a2.eq(b2[i : i + n])):
                    r = True
                    break
            return r if op == "in" else not r
        return _orig_compare(op, a2, b2)
    return NOT_HANDLED


symx.COMPARE_HOOKS.append(compare_tok)


def isi(v, ts):
    if isinstance(v, SymToken):
        return any(x is lark.Token or x is str for x in ts)
    return NOT_HANDLED


symx.ISINSTANCE_HOOKS.append(isi)


def _str_tok(x):
    if isinstance(x, SymToken):
        return x.value
    return NOT_HANDLED


from . import models_str as _ms  # noqa: E402

_ms.STR_HOOKS.append(_str_tok)

def call_lark(self, f, args, kwargs):
    if f is lark.Token and len(args) == 2 and isinstance(args[1], (SymStr, SymToken)):
        return SymToken(args[0], text_of(args[1]))
    if f is lark.Tree:
        return lark.Tree(*args, **kwargs)
    return NOT_HANDLED


CALL_HOOKS.append(call_lark)


def getattr_lark(self, obj, name):
    if isinstance(obj, SymToken):
        if name in ("type", "value"):
            return getattr(obj, name)
        return self.getattr(obj.value, name)
    return NOT_HANDLED


GETATTR_HOOKS.append(getattr_lark)


class ReconStub:
    """stands in for lark.reconstruct.Reconstructor: yields the model token stream of a tree"""

    def __init__(self, parser, term_subs=None):
        self.parser = parser

    def _reconstruct(self, tree):
        return iter(model_stream(tree, self.parser))


def model_stream(tree, parser, any_origin=False):
    """tokens of `tree` according to the grammar table model: pick the production of the expected non-terminal whose
    label and child shape match the node; emit fixed text for filtered terminals, child streams for the rest."""
    from lark.grammar import Terminal
    from lark.lexer import PatternStr

    terms = {t.name: t for t in parser.terminals}
    by_origin = {}
    for r in parser.rules:
        by_origin.setdefault(r.origin.name, []).append(r)

    def label_of(node):
        return str(node.data) if isinstance(node, lark.Tree) else None

    def expand(origin, children):
        """try every production of origin against the list of children; returns stream or None"""
        for r in by_origin[origin]:
            res = match(r, children)
            if res is not None:
                return res
        return None

    def match(r, children):
        out = []
        i = 0
        for s in r.expansion:
            if isinstance(s, Terminal):
                t = terms[s.name]
                if s.filter_out:
                    out.append(t.pattern.value)
                else:
                    if i >= len(children) or isinstance(children[i], lark.Tree):
                        return None
                    tok = children[i]
                    if getattr(tok, "type", None) != s.name:
                        return None
                    out.append(tok)
                    i += 1
            else:
                name = s.name
                if name.startswith("_"):
                    # inlined helper (EBNF star): greedily consume children that match
                    while i < len(children):
                        sub = None
                        for r2 in by_origin[name]:
                            # helper rules are of the form  _h: item | _h item
                            items = [x for x in r2.expansion if x.name != name]
                            if len(items) == 1 and not isinstance(items[0], Terminal):
                                sub = node_stream(items[0].name, children[i])
                                if sub is not None:
                                    break
                        if sub is None:
                            break
                        out.extend(sub)
                        i += 1
                else:
                    if i >= len(children):
                        return None
                    sub = node_stream(name, children[i])
                    if sub is None:
                        return None
                    out.extend(sub)
                    i += 1
        if i != len(children):
            return None
        return out

    def node_stream(origin, node):
        """stream for `node` expected to derive from non-terminal `origin`"""
        if not isinstance(node, lark.Tree):
            return None
        lab = label_of(node)
        for r in by_origin[origin]:
            rl = r.alias or r.origin.name
            if rl != lab:
                continue
            res = match(r, node.children)
            if res is not None:
                return res
        return None

    if any_origin:
        # stream of a node that is not a whole profile: try it as a derivation of every non-terminal
        for origin in by_origin:
            if origin.startswith("_"):
                continue
            res = node_stream(origin, tree)
            if res is not None:
                return res
        raise ValueError("node does not conform to the grammar model: %r" % (tree,))
    res = node_stream("start", tree)
    if res is None:
        raise ValueError("tree does not conform to the grammar model: %r" % (tree,))
    return res


def m_hash(x):
    """hash() of a lark Tree / token with symbolic text: a structural key (equal structure and identical terms -> equal
    hash; distinct -> distinct, i.e. hash collisions are assumed away). Other values: the real hash."""
    def key(v):
        if isinstance(v, lark.Tree):
            return ("T", str(v.data), tuple(key(c) for c in v.children))
        if isinstance(v, SymToken):
            return ("t", v.type, tuple(c if isinstance(c, int) else ("z", c.get_id()) for c in v.value.cells))
        if isinstance(v, lark.Token):
            return ("t", v.type, tuple(map(ord, str(v))))
        if isinstance(v, SymStr):
            return ("s", tuple(c if isinstance(c, int) else ("z", c.get_id()) for c in v.cells))
        return ("o", v)
    if isinstance(x, (lark.Tree, SymToken)):
        return hash(key(x))
    return hash(x)


m_hash.__symx_model__ = True
symx.BUILTIN_MODELS["hash"] = m_hash
