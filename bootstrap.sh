#!/bin/bash
# Offline bootstrap of the overlay interpreter used by every check:
#   /verif/.venv = venv of /venv/bin/python + .pth overlay onto /venv's site-packages (the repo's own
#   dependencies: dissect.cstruct, lark, pycryptodome, httpx ...) + z3-solver, cvc5, crosshair-tool from the
#   offline wheelhouse. /repo is put on sys.path FIRST so that the current working tree is what gets imported.
set -e
cd "$(dirname "$0")"
V=/verif/.venv
if [ "$(dirname "$0")" != "/verif" ] && [ "$(pwd)" != "/verif" ]; then V="$(pwd)/.venv"; fi
if [ -x "$V/bin/python" ] && "$V/bin/python" -c "import z3, lark, dissect.cstruct" 2>/dev/null; then
  exit 0
fi
rm -rf "$V"
/venv/bin/python -m venv "$V"
SP=$("$V/bin/python" -c "import sysconfig; print(sysconfig.get_paths()['purelib'])")
cat > "$SP/_verif_overlay.pth" <<'PTH'
import site; site.addsitedir('/venv/lib/python3.12/site-packages')
PTH
export PIP_NO_INDEX=1
"$V/bin/python" -m pip install -q --no-index --find-links /opt/veriftools/wheels z3-solver >/dev/null
# optional second engines; absence is reported by the checks that would use them, never fatal here
"$V/bin/python" -m pip install -q --no-index --find-links /opt/veriftools/wheels cvc5 >/dev/null 2>&1 || true
"$V/bin/python" -m pip install -q --no-index --find-links /opt/veriftools/wheels crosshair-tool >/dev/null 2>&1 || true
"$V/bin/python" -c "import z3, lark, dissect.cstruct; print('overlay ok: z3', z3.get_version_string())"
