#!/bin/bash
# mutdbg.sh <seed-dir-name> <PID> <tier> <instance-substring> — run dbg.py instances against a scratch copy of /repo HEAD with a
# seeded patch applied (nothing under /repo is modified). TMO / TAILN override the timeout and the number of output lines.
S=$1; PID=$2; TIER=$3; F=$4
D=$(mktemp -d /tmp/mutdbgrepo.XXXXXX)
trap 'rm -rf "$D"' EXIT
git -C /repo archive HEAD | tar -x -C "$D"
(cd "$D" && patch -p1 -s < /verif/seeded/$S/patch.diff) || { echo patch failed; exit 2; }
cd /verif
NOPRE=1 VERIF_REPO="$D" timeout ${TMO:-600} .venv/bin/python dbg.py $PID $TIER "$F" 2>&1 | tail -${TAILN:-8}
