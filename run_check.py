import argparse
import os
import sys

sys.path.insert(0, os.environ.get("VERIF_REPO", "/repo"))
sys.path.insert(0, os.path.dirname(os.path.abspath(__file__)))
sys.setrecursionlimit(20000)

import framework  # noqa: E402

ap = argparse.ArgumentParser()
ap.add_argument("pid")
ap.add_argument("--tier", default=os.environ.get("VERIF_TIER", "quick"), choices=["quick", "thorough"])
ap.add_argument("--jobs", type=int, default=0)
a = ap.parse_args()
sys.exit(framework.run_check(a.pid.upper(), a.tier, a.jobs or None))
