import argparse
import os
import sys

sys.path.insert(0, os.environ.get("VERIF_REPO", "/repo"))
sys.path.insert(0, os.path.dirname(os.path.abspath(__file__)))
sys.setrecursionlimit(20000)
sys.set_int_max_str_digits(0)  # z3's Python API renders wide bit-vector constants through str(int)

import framework  # noqa: E402

ap = argparse.ArgumentParser()
ap.add_argument("pid")
ap.add_argument("--tier", default=os.environ.get("VERIF_TIER", "quick"), choices=["quick", "thorough"])
ap.add_argument("--jobs", type=int, default=0)
a = ap.parse_args()
sys.exit(framework.run_check(a.pid.upper(), a.tier, a.jobs or None))
