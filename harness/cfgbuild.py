"""independent encoders for beacon configuration blocks (used by C13, C14, C19, C07): written from the Cobalt Strike
format (App. B.2 of DESIGN.md), never by calling the library's own parsers."""
from harness.common import *  # noqa: F401,F403

PTR, SHORT, INT = 3, 1, 2

TS = dict(APPEND=1, PREPEND=2, BASE64=3, PRINT=4, PARAMETER=5, HEADER=6, BUILD=7, NETBIOS=8, _PARAMETER=9, _HEADER=10, NETBIOSU=11,
          URI_APPEND=12, BASE64URL=13, STRREP=14, MASK=15, _HOSTHEADER=16)
ARG_OPS = ("_HEADER", "HEADER", "PARAMETER", "_PARAMETER", "_HOSTHEADER", "APPEND", "PREPEND")


def u32be(n):
    return list(n.to_bytes(4, "big"))


def u16be(n):
    return list(n.to_bytes(2, "big"))


def cells_of(x):
    if isinstance(x, SymBytes):
        return list(x.cells)
    return list(x)


def enc_transform(steps):
    """steps: [(NAME, arg)] with arg = bytes/SymBytes for argument steps, 'metadata'|'id'|'output' for BUILD, True otherwise"""
    out = []
    for name, arg in steps:
        out += u32be(TS[name])
        if name in ARG_OPS:
            c = cells_of(arg)
            out += u32be(len(c)) + c
        elif name == "BUILD":
            out += u32be(1 if arg == "output" else 0)
    return out + u32be(0)


def enc_recover(steps):
    """steps: [(name, int|True)] lower-case names in recover order"""
    codes = dict(append=1, prepend=2, base64=3, print=4, netbios=8, netbiosu=11, base64url=13, mask=15)
    out = []
    for name, arg in steps:
        out += u32be(codes[name])
        if name in ("append", "prepend"):
            out += u32be(arg) if isinstance(arg, int) else cells_of(arg)  # (symbolic length: 4 big-endian cells supplied by the harness)
    return out + u32be(0)


def rec(idx, typ, val):
    c = cells_of(val)
    return u16be(idx) + u16be(typ) + u16be(len(c)) + c


_DER = {}


def rsa_keypair(bits=1024):
    """a real RSA key pair, generated once per process (the configuration carries the DER public key)"""
    if bits not in _DER:
        from Crypto.PublicKey import RSA

        k = RSA.generate(bits)
        _DER[bits] = (k, k.publickey().export_key("DER"))
    return _DER[bits]


DEFAULT_GET = [("_HEADER", b"Accept: */*"), ("BUILD", "metadata"), ("BASE64", True), ("PREPEND", b"SESSIONID="), ("HEADER", b"Cookie")]
DEFAULT_POST = [("_HEADER", b"Content-Type: application/octet-stream"), ("BUILD", "id"), ("PARAMETER", b"id"),
                ("BUILD", "output"), ("PRINT", True)]
DEFAULT_RECOVER = [("print", True)]


def http_config(get=None, post=None, recover=None, domains=b"c2.example.org,/load", submit=b"/submit.php", ua=b"Mozilla/5.0 (test)",
                verb_get=b"GET", verb_post=b"POST", sleeptime=60000, jitter=20, port=443, proto=8, host_header=b"", crypto=0,
                pubkey_bits=1024, extra=()):
    """cells of a well-formed HTTP(S) beacon configuration block (values may contain symbolic cells)"""
    _, der = rsa_keypair(pubkey_bits)
    pad = lambda b, n: cells_of(b) + [0] * (n - len(cells_of(b)))  # noqa: E731
    out = []
    out += rec(1, SHORT, u16be(proto))
    out += rec(2, SHORT, u16be(port))
    out += rec(3, INT, cells_of(sleeptime) if not isinstance(sleeptime, int) else u32be(sleeptime))
    out += rec(5, SHORT, cells_of(jitter) if not isinstance(jitter, int) else u16be(jitter))
    out += rec(7, PTR, pad(der, 256))
    out += rec(8, PTR, pad(domains, 256))
    out += rec(9, PTR, pad(ua, 128))
    out += rec(10, PTR, pad(submit, 64))
    out += rec(11, PTR, enc_recover(recover if recover is not None else DEFAULT_RECOVER))
    out += rec(12, PTR, enc_transform(get if get is not None else DEFAULT_GET))
    out += rec(13, PTR, enc_transform(post if post is not None else DEFAULT_POST))
    out += rec(26, PTR, pad(verb_get, 16))
    out += rec(27, PTR, pad(verb_post, 16))
    out += rec(31, SHORT, u16be(crypto))
    out += rec(54, PTR, pad(host_header, 128))
    for idx, typ, val in extra:
        out += rec(idx, typ, val)
    return out + [0, 0]
