"""C19 — the beacon client keeps a stable identity and dispatches tasks exactly once (DESIGN.md §4 C19)"""
import itertools
from fractions import Fraction

from harness.common import *  # noqa: F401,F403
from harness import cfgbuild as CB
from symx import models_crypto as MC
from dissect.cobaltstrike import c2, client
from dissect.cobaltstrike.beacon import BeaconConfig
from dissect.cobaltstrike.c_c2 import BeaconCommand, TaskPacket, c2struct
from dissect.cobaltstrike.client import HttpBeaconClient

MC.install()
MC.install_rsa()

INFO = dict(
    files=["dissect/cobaltstrike/client.py", "dissect/cobaltstrike/c2.py", "dissect/cobaltstrike/c_c2.py"],
    bounds=dict(
        quick="beacon id: one symbolic integer in [-2^40, 2^40] (all residues, both wrap-arounds); session keys: two clients whose "
        "requested ids are symbolic; sleep band: symbolic sleeptime (u32) and jitter (0..100) from the configuration and from the "
        "run() overrides, random.uniform nondeterministic, decided over the rationals; metadata size: computer name = 44..50 ASCII "
        "characters + 2 symbolic code points (full Unicode range without surrogates), user/process 1..3 symbolic code points, against "
        "the PKCS#1 limit of the configured 1024-bit key; dispatch: every registry built from {0,1,2} decorator handlers for two "
        "commands, on_<command> method present/absent, {0,1,2} catch-all handlers, on_catch_all present/absent, empty-task handler "
        "present/absent, followed by every task sequence of length <= 2 whose commands are symbolic over {SLEEP, CD, NOOP, PAUSE} or "
        "empty; plus one symbolic command over ALL BeaconCommand values and unknown ids",
        thorough="task sequences of length <= 3; names with 3 symbolic code points; 2048-bit key",
    ),
    outside="IEEE-754 rounding in get_sleep_time (decided over exact rationals only — no installed solver decides the FP64 lemma, "
    "DESIGN §5); the Mersenne Twister (seeded generator = uninterpreted function of seed and draw number); httpx / the network (get_task and "
    "send_callback replaced by recorders in the dispatch harness); handler order (only the multiset of invocations per task is asserted)",
    stubs=["random -> nondeterministic draws; seed(s) makes draws a function of (s, draw number)", "hashlib.sha256 -> uninterpreted",
           "PKCS1_v1_5 -> contract stub (length limit k-11)", "time.sleep / time.time -> no-op / constant", "logging -> no-op",
           "HttpBeaconClient.get_task / send_callback -> harness recorders (dispatch harness only)"],
    assumptions=["z3 decides QF_BV / LRA soundly", "sleep band: real arithmetic instead of IEEE-754 doubles"],
)

RUN_KW = dict(dry_run=True, pid=1234, computer="PC", user="bob", process="a.exe", internal_ip="10.1.2.3", arch="x64", domain="c2.example.org")


class TimeShim:
    __symx_model__ = True

    @staticmethod
    def time():
        return 1700000000

    @staticmethod
    def sleep(s):
        return None


TimeShim.time.__symx_model__ = True
TimeShim.sleep.__symx_model__ = True
I.set_override("dissect.cobaltstrike.client", "time", TimeShim)

NATIVE_PATCHES = [(client, "random", models_lib.RandomShim), (c2, "random", models_lib.RandomShim), (client, "time", TimeShim)]

_CFG = {}


def config(**kw):
    return V.unwrap(SymBytes(CB.http_config(**kw)))


def new_client(cfg_block, **kw):
    cfg = call(BeaconConfig, cfg_block)
    cl = call(HttpBeaconClient)
    args = dict(RUN_KW)
    args.update(kw)
    return cl, outcome(I.getattr(cl, "run"), cfg, **args)


# ----------------------------------------------------------------------------------------------------------------------
# identity
# ----------------------------------------------------------------------------------------------------------------------


def h_beacon_id():
    def body(ctx):
        if not is_native():
            MC.new_env()
        bid = sym_int("beacon_id", -(1 << 40), 1 << 40)
        cl, (kind, r) = new_client(config(), beacon_id=bid)
        in_range = compare("<=", 0, bid) if not is_native() else 0 <= bid
        in_range = truth(in_range) and truth(compare("<", bid, 1 << 31))
        if kind == "exc":
            ctx.prove(isinstance(r, ValueError), "only ValueError may refuse a beacon id (got %s)" % type(r).__name__)
            ctx.prove(not in_range, "a requested id in [0, 2^31) is accepted")
            return
        got = cl.beacon_id
        ctx.prove(compare("==", binop("%", got, 2), 0), "presented beacon id is even")
        ctx.prove(compare(">=", got, 0), "presented beacon id is >= 0")
        ctx.prove(compare("<", got, 1 << 31), "presented beacon id is < 2^31")
        if in_range:
            ctx.prove(compare("==", got, binop("-", bid, binop("%", bid, 2))), "an id in range is only rounded down to the even id")
        md = cl.metadata
        ctx.prove(deep_eq(md.bid if is_native() else I.getattr(md, "bid"), got), "metadata carries the presented id")
    return body


def h_random_id():
    """no id requested: the random id is normalised the same way"""
    def body(ctx):
        if not is_native():
            MC.new_env()
        cl, (kind, r) = new_client(config(), beacon_id=None)
        ctx.prove(kind == "ok", "dry run with a random id succeeds (got %r)" % (r,))
        if kind != "ok":
            return
        got = cl.beacon_id
        ctx.prove(compare("==", binop("%", got, 2), 0), "random beacon id is even")
        ctx.prove(truth(compare(">=", got, 0)) and truth(compare("<", got, 1 << 31)), "random beacon id in [0, 2^31)")
    return body


def h_keys(randomised=()):
    """two clients for symbolic ids; the first one leaves the arguments in `randomised` to the client's random defaults"""
    def body(ctx):
        if not is_native():
            env = MC.new_env()
        a = sym_int("id_a", 0, (1 << 31) - 1)
        b = sym_int("id_b", 0, (1 << 31) - 1)
        blk = config()
        c1, (k1, r1) = new_client(blk, beacon_id=a, **{k: None for k in randomised})
        c2_, (k2, r2) = new_client(blk, beacon_id=b, computer="OTHER", user="alice", pid=4321)
        ctx.prove(k1 == "ok" and k2 == "ok", "ids in range are accepted")
        if truth(compare("==", c1.beacon_id, c2_.beacon_id)):
            ctx.prove(deep_eq(as_bytes(c1.aes_rand), as_bytes(c2_.aes_rand)), "same id -> same aes_rand")
            ctx.prove(deep_eq(as_bytes(c1.aes_key), as_bytes(c2_.aes_key)), "same id -> same AES key")
            ctx.prove(deep_eq(as_bytes(c1.hmac_key), as_bytes(c2_.hmac_key)), "same id -> same HMAC key")
            ctx.prove(deep_eq(as_bytes(c1.metadata.aes_rand if is_native() else I.getattr(c1.metadata, "aes_rand")), as_bytes(c1.aes_rand)),
                      "metadata carries the aes_rand the keys derive from")
        # keys are the halves of SHA-256(aes_rand) and are the ones handed to the decoder
        if is_native():
            import hashlib
            d = hashlib.sha256(c1.aes_rand).digest()
            ea, eh = d[:16], d[16:]
        else:
            d = env.sha.apply([c1.aes_rand], 32)
            ea, eh = SymBytes(d.cells[:16]), SymBytes(d.cells[16:])
        ctx.prove(deep_eq(as_bytes(c1.aes_key), as_bytes(ea)), "AES key == SHA-256(aes_rand)[:16]")
        ctx.prove(deep_eq(as_bytes(c1.hmac_key), as_bytes(eh)), "HMAC key == SHA-256(aes_rand)[16:]")
        bk = c1.c2http.beacon_keys
        ctx.prove(deep_eq(as_bytes(bk.aes_key), as_bytes(c1.aes_key)), "decoder uses the client's AES key")
        ctx.prove(deep_eq(as_bytes(bk.hmac_key), as_bytes(c1.hmac_key)), "decoder uses the client's HMAC key")
    return body


# ----------------------------------------------------------------------------------------------------------------------
# sleep band (rationals)
# ----------------------------------------------------------------------------------------------------------------------


def h_sleep(source):
    def body(ctx):
        if not is_native():
            MC.new_env()
        s = sym_int("sleeptime", 0, (1 << 32) - 1)
        j = sym_int("jitter", 0, 100)
        if source == "config":
            blk = config(sleeptime=as_bytes(m_int_to_bytes(s, 4, "big")), jitter=as_bytes(m_int_to_bytes(j, 2, "big")))
            cl, (kind, r) = new_client(blk)
        else:
            cl, (kind, r) = new_client(config(), sleeptime=s, jitter=j)
        ctx.prove(kind == "ok", "dry run succeeds (got %r)" % (r,))
        if kind != "ok":
            return
        # the client's interval parameters are the configured / overriding ones (bit-vector obligation) ...
        ctx.prove(deep_eq(cl.sleeptime, s), "client sleeptime is the configured one")
        ctx.prove(deep_eq(cl.jitter, j), "client jitter is the configured one")
        # ... and the band is decided for every integer-valued (sleeptime, jitter) in range as pure real arithmetic: the two attributes
        # are replaced by arithmetic variables tied to nothing but their ranges (get_sleep_time reads only these and random)
        if not is_native():
            S, J = z3.Int("S"), z3.Int("J")
            ctx.add_c(S >= 0, S <= (1 << 32) - 1, J >= 0, J <= 100)
            ctx.inputs["S"], ctx.inputs["J"] = S, J
            cl.sleeptime, cl.jitter = SymReal(z3.ToReal(S)), SymReal(z3.ToReal(J))
        else:
            cl.sleeptime, cl.jitter = ctx.values.get("S", 0), ctx.values.get("J", 0)
        s, j = cl.sleeptime, cl.jitter
        for k in range(2):
            t = call(I.getattr(cl, "get_sleep_time"))
            if is_native():
                ctx.inputs["S"], ctx.inputs["J"] = s, j
                lo = Fraction(s) - Fraction(s * j, 100)
                tol = Fraction(max(s, 1), 10 ** 9)  # IEEE-754 rounding of the real code is outside the claim
                ctx.prove(lo - tol <= Fraction(t) <= Fraction(s) + tol, "sleep interval within the jitter band (draw %d)" % k)
            else:
                lo = binop("-", s, binop("/", binop("*", s, j), 100))
                ctx.prove(compare("<=", t, s), "sleep interval <= sleeptime (draw %d)" % k)
                ctx.prove(compare(">=", t, lo), "sleep interval >= sleeptime - sleeptime*jitter/100 (draw %d)" % k)
    return body


# ----------------------------------------------------------------------------------------------------------------------
# metadata fits the RSA key
# ----------------------------------------------------------------------------------------------------------------------


def _name_chars(ctx, name, n):
    s = sym_str(name, n)
    for c in s.cells:
        if isinstance(c, int):
            if 0xD800 <= c <= 0xDFFF or c in (0, 9):
                raise PathAbort()
        else:
            ctx.assume(mkbool(z3.And(z3.Or(z3.ULT(c, 0xD800), z3.UGT(c, 0xDFFF)), c != 0, c != 9)))
    return s


def h_info(pad, nsym, nuser, bits=1024):
    """computer = pad ASCII characters + nsym symbolic code points; user/process = nuser symbolic code points (0: concrete)"""
    def body(ctx):
        if not is_native():
            MC.new_env()
        comp = binop("+", "C" * pad, _name_chars(ctx, "computer", nsym))
        user = _name_chars(ctx, "user", nuser) if nuser else "bob"
        proc = _name_chars(ctx, "process", nuser) if nuser else "a.exe"
        cl, (kind, r) = new_client(config(pubkey_bits=bits), beacon_id=2, computer=V.unwrap(comp), user=V.unwrap(user), process=V.unwrap(proc))
        ctx.prove(kind == "ok", "dry run succeeds for every name (got %r)" % (r,))
        if kind != "ok":
            return
        kind, blob = outcome(c2.encrypt_metadata, cl.metadata, cl.c2http.pub)
        ctx.prove(kind == "ok", "metadata built by the client fits the server's RSA key (got %s)" % (blob if kind == "exc" else "",))
        info = as_bytes(cl.metadata.info if is_native() else I.getattr(cl.metadata, "info"))
        if is_native():
            full = as_bytes((V.to_native(comp) + "\t" + V.to_native(user) + "\t" + V.to_native(proc)).encode())
        else:
            full = as_bytes(binop("+", binop("+", binop("+", binop("+", as_str(comp), "\t"), as_str(user)), "\t"), as_str(proc)).encode())
        n = len(info.cells)
        ctx.prove(n <= len(full.cells) and deep_eq(info, SymBytes(full.cells[:n])), "info is a prefix of computer<TAB>user<TAB>process")
        if len(full.cells) <= 40:
            ctx.prove(n == len(full.cells), "names that fit are carried untruncated")
    return body


# ----------------------------------------------------------------------------------------------------------------------
# dispatch
# ----------------------------------------------------------------------------------------------------------------------

CMD_A, CMD_B = BeaconCommand.COMMAND_SLEEP, BeaconCommand.COMMAND_CD  # 4, 5
DOMAIN = (4, 5, 6, 47)  # SLEEP (has on_sleep in the subclass), CD, NOOP/KEYLOG_START alias, PAUSE


class StopLoop(Exception):
    """ends the otherwise endless beacon loop from the get_task stub"""


def make_client(reg, log):
    """reg: dict(dec_a, dec_b, on_a, catch, on_catch, empty) — builds the registry through the public API"""
    def mk(tag, response=None, raising=False):
        def handler(task):
            log.append((tag, len(state["served"]) - 1))
            if raising:
                raise RuntimeError("handler %s failed" % tag)  # a failing handler must not keep the other handlers from the task
            return response
        handler.__symx_model__ = True
        handler.tag = tag
        return handler

    state = dict(served=[])
    ns = {}
    if reg["on_a"]:
        ns["on_sleep"] = lambda self, task: log.append(("on_sleep", len(state["served"]) - 1))
    if reg["on_catch"]:
        ns["on_catch_all"] = lambda self, task: log.append(("on_catch_all", len(state["served"]) - 1))
    for f in ns.values():
        f.__symx_model__ = True
    cls = type("Client", (HttpBeaconClient,), ns)
    cls.__module__ = HttpBeaconClient.__module__  # its inherited methods are repo code: interpreted
    cl = call(cls)
    expected = {4: [], 5: [], -1: [], None: []}
    for i in range(reg["dec_a"]):
        h = mk("a%d" % i, response=(32, b"out") if i == 0 else None, raising=bool(reg.get("raising")) and i == 0)
        if i == 0:
            call(call(I.getattr(cl, "handle"), CMD_A), h)  # enum member
        else:
            call(call(I.getattr(cl, "handle"), 4), h)  # plain int
        expected[4].append(h.tag)
    for i in range(reg["dec_b"]):
        h = mk("b%d" % i)
        call(I.getattr(cl, "register_task"), 5, h)
        expected[5].append(h.tag)
    for i in range(reg["catch"]):
        h = mk("c%d" % i, raising=bool(reg.get("raising")) and i == 0)
        call(call(I.getattr(cl, "catch_all")), h)
        expected[-1].append(h.tag)
    for i in range(reg["empty"]):
        h = mk("e%d" % i)
        call(call(I.getattr(cl, "handle"), None), h)
        expected[None].append(h.tag)
    if reg["on_a"]:
        expected[4].append("on_sleep")
    if reg["on_catch"]:
        expected[-1].append("on_catch_all")
    return cl, expected, state


def expected_for(expected, cmd):
    """oracle: handlers registered for the command (decorator/register_task + on_<command> method); catch-all handlers
    only when there is none"""
    own = expected.get(cmd, [])
    return sorted(own) if own else sorted(expected[-1])


def h_dispatch(reg, ntasks, domain):
    def body(ctx):
        log = []
        sent = []
        cl, expected, state = make_client(reg, log)
        cmds = []
        for i in range(ntasks):
            c = sym_int("cmd%d" % i, -1, 200)  # -1 stands for an empty task (get_task() -> None)
            if domain is not None:
                if is_native():
                    if c not in domain and c != -1:
                        raise PathAbort()
                else:
                    ctx.assume(mkbool(z3.Or(*[tobool_expr(compare("==", c, d)) for d in domain + (-1,)])))
            else:
                known = sorted({m.value for m in BeaconCommand})
                if is_native():
                    if c not in known:
                        raise PathAbort()
                else:
                    ctx.assume(mkbool(z3.Or(*[tobool_expr(compare("==", c, d)) for d in known])))
            cmds.append(c)
        queue = list(cmds)

        def get_task():
            if not queue:
                raise StopLoop()
            c = queue.pop(0)
            state["served"].append(c)
            if truth(compare("==", c, -1)):
                return None
            return call(TaskPacket, epoch=1700000000, total_size=8, command=call(c2struct.BeaconCommand, c), size=0, data=b"")

        def send_callback(cid, data):
            sent.append((cid, data, len(state["served"]) - 1))

        get_task.__symx_model__ = True
        send_callback.__symx_model__ = True
        cl.get_task = get_task
        cl.send_callback = send_callback
        cl.silent = True
        cl.writer = None
        cl.sleeptime = 1000
        cl.jitter = 10
        try:
            call(I.getattr(cl, "_beacon_loop"))
            ctx.prove(False, "beacon loop returned")
        except StopLoop:
            pass
        for i, c in enumerate(cmds):
            cv = concretize(c) if not is_native() else c
            key = None if cv == -1 else cv
            want = expected_for(expected, key)
            got = sorted(t for t, k in log if k == i)
            ctx.prove(got == want, "task %d (command %s) of %r: handlers invoked %r, registered %r" % (i, key, [x for x in cmds], got, want))
            want_sent = 1 if (key == 4 and reg["dec_a"] and not reg.get("raising")) else 0
            ctx.prove(len([1 for s in sent if s[2] == i]) == want_sent, "task %d: each handler response is sent back exactly once" % i)
    return body


def instances(tier):
    q = tier == "quick"
    out = []
    out.append(Instance("beacon id normalisation", h_beacon_id(), dict(kind="id"), split=4))
    out.append(Instance("random beacon id", h_random_id(), dict(kind="random_id")))
    for rnd in ((), ("pid",), ("arch",), ("pid", "arch")):
        out.append(Instance("same id same keys; random defaults for %s" % (",".join(rnd) or "nothing"), h_keys(rnd),
                            dict(kind="keys", randomised=list(rnd), cost=100)))
    for src in ("config", "override"):
        out.append(Instance("sleep band (%s)" % src, h_sleep(src), dict(kind="sleep", source=src)))
    for pad in ((46, 48, 50) if q else range(40, 52)):
        out.append(Instance("metadata fits pad=%d sym=3" % pad, h_info(pad, 3, 0), dict(kind="info", ascii_prefix=pad, symbolic=3, cost=200)))
    out.append(Instance("metadata fits short names", h_info(0, 2, 1), dict(kind="info", ascii_prefix=0, symbolic=2, cost=200)))
    if not q:
        out.append(Instance("metadata fits pad=45 sym=4", h_info(45, 4, 0), dict(kind="info", ascii_prefix=45, symbolic=4, cost=1000)))
        out.append(Instance("metadata fits 2048-bit key pad=48", h_info(48, 3, 0, 2048), dict(kind="info", ascii_prefix=48, bits=2048, cost=200)))
    regs = []
    for dec_a, dec_b, on_a, catch, on_catch, empty in itertools.product((0, 1, 2), (0, 1), (0, 1), (0, 1, 2), (0, 1), (0, 1)):
        regs.append(dict(dec_a=dec_a, dec_b=dec_b, on_a=on_a, catch=catch, on_catch=on_catch, empty=empty))
    n = 2 if q else 3
    for reg in regs:
        if q and (reg["dec_a"] == 2 and reg["catch"] == 2):
            continue
        out.append(Instance("dispatch %s tasks<=%d" % (",".join("%s=%d" % kv for kv in reg.items()), n), h_dispatch(reg, n, DOMAIN),
                            dict(kind="dispatch", registry=reg, tasks=n, domain=list(DOMAIN), cost=5 ** n)))
    # a handler that raises: the remaining handlers of the task (and the following tasks) are still served exactly once
    for dec_a, on_a, catch, on_catch in ((2, 0, 0, 0), (1, 1, 0, 0), (2, 1, 2, 0), (0, 0, 2, 1)) if q else itertools.product((0, 1, 2), (0, 1), (0, 2), (0, 1)):
        reg = dict(dec_a=dec_a, dec_b=1, on_a=on_a, catch=catch, on_catch=on_catch, empty=0, raising=1)
        out.append(Instance("dispatch with a raising handler %s tasks<=2" % ",".join("%s=%d" % kv for kv in reg.items()), h_dispatch(reg, 2, DOMAIN),
                            dict(kind="dispatch_raising", registry=reg, tasks=2, domain=list(DOMAIN), cost=25)))
    for reg in (regs[0], dict(dec_a=1, dec_b=1, on_a=1, catch=1, on_catch=1, empty=1), dict(dec_a=0, dec_b=0, on_a=0, catch=2, on_catch=0, empty=0)):
        out.append(Instance("dispatch any known command %s" % ",".join("%s=%d" % kv for kv in reg.items()), h_dispatch(reg, 1, None),
                            dict(kind="dispatch_all", registry=reg, cost=100)))
    for i in out:
        i.native_patches = list(NATIVE_PATCHES)
    return out


def prechecks(tier, seed):
    """interpreter vs CPython on a concrete dry run; UTF-8 model vs CPython"""
    import random as _r

    V.Ctx.cur = V.Ctx()
    MC.new_env()
    rnd = _r.Random(seed)
    n = 0
    for _ in range(300):
        cp = rnd.choice([rnd.randrange(0x80), rnd.randrange(0x80, 0x800), rnd.randrange(0x800, 0xD800), rnd.randrange(0xE000, 0x10000),
                         rnd.randrange(0x10000, 0x110000)])
        e = z3.BitVec("cp", 21)
        V.Ctx.cur = V.Ctx()
        V.Ctx.cur.add_c(e == cp)
        got = SymStr([e]).encode()
        b = bytes(z3.simplify(z3.substitute(bv(x), (e, z3.BitVecVal(cp, 21)))).as_long() for x in got.cells)
        assert b == chr(cp).encode(), "UTF-8 model differs from CPython at U+%04X" % cp
        n += 1
    V.Ctx.cur = V.Ctx()
    MC.new_env()
    blk = bytes(CB.http_config())
    real = HttpBeaconClient()
    real.run(BeaconConfig(blk), beacon_id=4243, **RUN_KW)
    cl, (kind, r) = new_client(blk, beacon_id=4243)
    assert kind == "ok" and cl.beacon_id == real.beacon_id == 4242
    assert real.metadata.info == V.to_native(as_bytes(I.getattr(cl.metadata, "info")))
    n += 2
    return dict(validated=n)
