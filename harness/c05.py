"""C05 — packet encryption round-trips and is authenticated before decryption (DESIGN.md §4 C05)"""
import hashlib as _hashlib
import hmac as _hmac
import itertools

from harness.common import *  # noqa: F401,F403
from symx import models_crypto as MC
from dissect.cobaltstrike import c2

MC.install()

INFO = dict(
    files=["dissect/cobaltstrike/c2.py", "dissect/cobaltstrike/utils.py"],
    bounds=dict(
        quick="plaintext length every n in 0..33 (symbolic bytes), symbolic 16-byte AES key / HMAC key / IV; fault vectors: one "
        "symbolic non-zero XOR difference over the whole ciphertext, over the whole signature, over the HMAC key; truncations of "
        "ciphertext and signature by 1..16 bytes; hmac_key in {None, b''}; framing: every stream of <=3 packets with ciphertext lengths "
        "from {16,32,48} and symbolic contents",
        thorough="plaintext length 0..64; framing <=4 packets, lengths {0,16,32,48,64}",
    ),
    outside="strength of AES-CBC / HMAC-SHA256 themselves (uninterpreted functions); coordinated changes of ciphertext AND signature "
    "(forgery, excluded only by key secrecy); lengths beyond the bound",
    stubs=["AES.new(k, MODE_CBC, iv).encrypt/decrypt -> uninterpreted permutation per (key, iv), length/ValueError contract",
           "hmac.new(k, m, 'sha256').digest() -> uninterpreted function of (k, m), 32 bytes",
           "io.BytesIO -> pure model; cstruct uint32 reader -> modelled leaf"],
    assumptions=["A-HMAC (used only by the ciphertext / HMAC-key / truncation fault instances, never by the signature-fault and "
                 "round-trip instances): distinct (key, message) pairs give HMAC outputs that differ in their first 16 bytes",
                 "z3 decides QF_BV+UF (Ackermann-expanded) soundly"],
)


def real_hmac16(key, msg):
    return _hmac.new(key, msg, "sha256").digest()[:16]


def new_env(a_hmac=False):
    return MC.new_env(a_hmac=a_hmac) if not is_native() else None


def h_pad(n):
    def body(ctx):
        x = sym_bytes("x", n)
        p = as_bytes(call(c2.pad, x))
        k = len(p.cells) - n
        ctx.prove(1 <= k <= 16, "pad adds 1..16 bytes (added %d)" % k)
        ctx.prove(len(p.cells) % 16 == 0, "padded length is a multiple of 16")
        ctx.prove(SymBytes(p.cells[:n]).eq(x), "pad keeps the data as prefix")
        ctx.prove(SymBytes(p.cells[n:]).eq(b"A" * k), "padding bytes are all 'A'")
    return body


def h_roundtrip(n):
    def body(ctx):
        env = new_env()
        pt, key, hk, iv = sym_bytes("pt", n), sym_bytes("key", 16), sym_bytes("hmac_key", 16), sym_bytes("iv", 16)
        pkt = call(c2.encrypt_packet, pt, key, hk, iv)
        ct, sig = as_bytes(pkt.ciphertext), as_bytes(pkt.signature)
        k = 16 - n % 16
        ctx.prove(len(ct.cells) == n + k, "ciphertext length == padded length")
        ctx.prove(len(sig.cells) == 16, "signature is 16 bytes")
        padded = SymBytes(pt.cells + [0x41] * k)
        if is_native():
            from Crypto.Cipher import AES

            exp_ct = AES.new(V.to_native(key), AES.MODE_CBC, iv=V.to_native(iv)).encrypt(V.to_native(padded))
            exp_sig = real_hmac16(V.to_native(hk), V.to_native(ct))
        else:
            exp_ct = env.aes_encrypt(key, iv, padded)
            exp_sig = SymBytes(env.hmac.apply([hk, ct], 32).cells[:16])
        ctx.prove(ct.eq(exp_ct), "ciphertext == AES-128-CBC(key, iv, plaintext + 'A' padding)")
        ctx.prove(sig.eq(exp_sig), "signature == first 16 bytes of HMAC-SHA256(hmac_key, ciphertext)")
        back = as_bytes(call(c2.decrypt_packet, pkt, key, hk, iv, True))
        ctx.prove(back.eq(padded), "decrypt(encrypt(x)) == x followed by 1..16 'A'")
        back2 = as_bytes(call(c2.decrypt_packet, pkt, key, None, iv, False))
        ctx.prove(back2.eq(padded), "decrypt without verification gives the same plaintext")
    return body


def h_fault(n, kind, t=0):
    """kind: ct (xor difference over the ciphertext), sig, key (hmac key difference), trunc_ct, trunc_sig, ext_ct, ext_sig (bytes appended), nokey"""
    def body(ctx):
        env = new_env(a_hmac=kind in ("ct", "key", "trunc_ct", "ext_ct"))
        pt, key, hk, iv = sym_bytes("pt", n), sym_bytes("key", 16), sym_bytes("hmac_key", 16), sym_bytes("iv", 16)
        pkt = call(c2.encrypt_packet, pt, key, hk, iv)
        ct, sig = as_bytes(pkt.ciphertext), as_bytes(pkt.signature)
        hk2 = hk
        if kind == "ct":
            d = sym_bytes("delta", len(ct.cells))
            ctx.assume(mkbool(z3.Or(*[bv(c) != 0 for c in d.cells])) if not d.is_concrete() else any(d.cells))
            ct = SymBytes([z3.simplify(bv(a) ^ bv(b)) if not (isinstance(a, int) and isinstance(b, int)) else a ^ b
                           for a, b in zip(ct.cells, d.cells)])
        elif kind == "sig":
            d = sym_bytes("delta", 16)
            ctx.assume(mkbool(z3.Or(*[bv(c) != 0 for c in d.cells])) if not d.is_concrete() else any(d.cells))
            sig = SymBytes([z3.simplify(bv(a) ^ bv(b)) if not (isinstance(a, int) and isinstance(b, int)) else a ^ b
                            for a, b in zip(sig.cells, d.cells)])
        elif kind == "key":
            d = sym_bytes("delta", 16)
            ctx.assume(mkbool(z3.Or(*[bv(c) != 0 for c in d.cells])) if not d.is_concrete() else any(d.cells))
            hk2 = SymBytes([z3.simplify(bv(a) ^ bv(b)) if not (isinstance(a, int) and isinstance(b, int)) else a ^ b
                            for a, b in zip(hk.cells, d.cells)])
        elif kind == "trunc_ct":
            ct = SymBytes(ct.cells[:len(ct.cells) - t])
        elif kind == "trunc_sig":
            sig = SymBytes(sig.cells[:16 - t])
        elif kind == "ext_ct":
            # t arbitrary bytes appended to an authentic ciphertext, original signature (1..15: a trailing partial AES block; 16: a whole one)
            ct = SymBytes(ct.cells + sym_bytes("extra", t).cells)
        elif kind == "ext_sig":
            sig = SymBytes(sig.cells + sym_bytes("extra", t).cells)
        elif kind == "nokey":
            hk2 = None if t == 0 else SymBytes([])
        bad = c2.EncryptedPacket(V.unwrap(ct) if is_native() else ct, V.unwrap(sig) if is_native() else sig)
        before = env.dec_calls if env else 0
        if is_native():
            from Crypto.Cipher import AES as _AES

            calls = []
            orig = _AES.new

            def spy(*a, **k):
                calls.append(a)
                return orig(*a, **k)

            c2.AES.new = spy
        try:
            kind_, r = outcome(c2.decrypt_packet, bad, key, hk2, iv, True)
        finally:
            if is_native():
                c2.AES.new = orig
        ctx.prove(kind_ == "exc" and isinstance(r, ValueError),
                  "tampered packet (%s) is rejected with ValueError (got %s %r)" % (kind, kind_, type(r).__name__ if kind_ == "exc" else "plaintext"))
        after = env.dec_calls if env else len(calls)
        ctx.prove(after == before, "no AES decryption is attempted on a rejected packet (no plaintext)")
    return body


def h_framing_client(lens):
    def body(ctx):
        pkts = []
        stream = []
        for i, L in enumerate(lens):
            ct, sig = sym_bytes("ct%d" % i, L), sym_bytes("sig%d" % i, 16)
            pkts.append((ct, sig))
            frame = as_bytes(call(c2.EncryptedPacket.dumps, c2.EncryptedPacket(V.unwrap(ct) if is_native() else ct, V.unwrap(sig) if is_native() else sig)))
            ctx.prove(SymBytes(frame.cells[:4]).eq((L + 16).to_bytes(4, "big")), "frame header == u32be(len(ciphertext)+16)")
            ctx.prove(SymBytes(frame.cells[4:]).eq(SymBytes(ct.cells + sig.cells)), "frame body == ciphertext + signature")
            stream += frame.cells
        data = c2.ClientC2Data(output=V.unwrap(SymBytes(stream)) if True else None)
        got = list(call(c2.ClientC2Data.iter_encrypted_packets, data))
        ctx.prove(len(got) == len(pkts), "client stream splits into exactly %d packets (got %d)" % (len(pkts), len(got)))
        for (ct, sig), g in zip(pkts, got):
            ctx.prove(as_bytes(g.ciphertext).eq(ct), "client packet ciphertext preserved")
            ctx.prove(as_bytes(g.signature).eq(sig), "client packet signature preserved")
    return body


def h_framing_server(L):
    def body(ctx):
        ct, sig = sym_bytes("ct", L), sym_bytes("sig", 16)
        data = c2.ServerC2Data(output=V.unwrap(SymBytes(ct.cells + sig.cells)))
        got = list(call(c2.ServerC2Data.iter_encrypted_packets, data))
        ctx.prove(len(got) == 1, "server data is exactly one packet")
        if got:
            ctx.prove(as_bytes(got[0].ciphertext).eq(ct), "server packet ciphertext == all but the last 16 bytes")
            ctx.prove(as_bytes(got[0].signature).eq(sig), "server packet signature == last 16 bytes")
        for empty in (None, b""):
            ctx.prove(list(call(c2.ServerC2Data.iter_encrypted_packets, c2.ServerC2Data(output=empty))) == [],
                      "empty server data yields no packet")
            ctx.prove(list(call(c2.ClientC2Data.iter_encrypted_packets, c2.ClientC2Data(output=empty))) == [],
                      "empty client data yields no packet")
    return body


def instances(tier):
    q = tier == "quick"
    out = []
    N = 34 if q else 65
    for n in range(N):
        out.append(Instance("pad n=%d" % n, h_pad(n), dict(kind="pad", n=n)))
        out.append(Instance("roundtrip n=%d" % n, h_roundtrip(n), dict(kind="roundtrip", n=n)))
    for n in ((0, 1, 15, 16, 17, 33) if q else (0, 1, 15, 16, 17, 31, 32, 33, 48, 64)):
        for kind in ("ct", "sig", "key"):
            out.append(Instance("fault %s n=%d" % (kind, n), h_fault(n, kind), dict(kind="fault", fault=kind, n=n)))
        for t in ((1, 16) if q else (1, 2, 8, 15, 16)):
            out.append(Instance("fault trunc_ct by %d n=%d" % (t, n), h_fault(n, "trunc_ct", t), dict(kind="fault", fault="trunc_ct", t=t, n=n)))
            out.append(Instance("fault trunc_sig by %d n=%d" % (t, n), h_fault(n, "trunc_sig", t), dict(kind="fault", fault="trunc_sig", t=t, n=n)))
        for t in ((1, 15, 16) if q else (1, 2, 8, 15, 16, 17)):
            out.append(Instance("fault ext_ct by %d n=%d" % (t, n), h_fault(n, "ext_ct", t), dict(kind="fault", fault="ext_ct", t=t, n=n)))
        for t in ((1,) if q else (1, 16)):
            out.append(Instance("fault ext_sig by %d n=%d" % (t, n), h_fault(n, "ext_sig", t), dict(kind="fault", fault="ext_sig", t=t, n=n)))
        for t in (0, 1):
            out.append(Instance("fault hmac_key=%s n=%d" % ("None" if t == 0 else "b''", n), h_fault(n, "nokey", t),
                                dict(kind="fault", fault="nokey", variant=t, n=n)))
    Ls = (16, 32, 48) if q else (0, 16, 32, 48, 64)
    for k in (range(0, 4) if q else range(0, 5)):
        for lens in itertools.product(Ls, repeat=k):
            if not q and k == 4 and len(set(lens)) > 2:
                continue
            out.append(Instance("framing client %s" % (list(lens),), h_framing_client(lens), dict(kind="framing_client", lens=list(lens))))
    for L in Ls + ((1,) if q else (1, 15)):
        out.append(Instance("framing server L=%d" % L, h_framing_server(L), dict(kind="framing_server", L=L)))
    return out


def prechecks(tier, seed):
    """the crypto stubs' contracts against pycryptodome / hmac on concrete data; interpreter vs CPython"""
    import random
    from Crypto.Cipher import AES

    rnd = random.Random(seed)
    n = 0
    for L in (0, 16, 32):
        k, iv, pt = rnd.randbytes(16), rnd.randbytes(16), rnd.randbytes(L)
        ct = AES.new(k, AES.MODE_CBC, iv=iv).encrypt(pt)
        assert len(ct) == L and AES.new(k, AES.MODE_CBC, iv=iv).decrypt(ct) == pt
        n += 1
    for L in (1, 15, 17):
        try:
            AES.new(b"k" * 16, AES.MODE_CBC, iv=b"i" * 16).encrypt(b"x" * L)
            raise AssertionError("AES accepted unaligned data")
        except ValueError:
            n += 1
    for kl in (0, 15, 17):
        try:
            AES.new(b"k" * kl, AES.MODE_CBC, iv=b"i" * 16)
            raise AssertionError("AES accepted bad key length")
        except ValueError:
            n += 1
    assert len(_hmac.new(b"k", b"m", "sha256").digest()) == 32
    # the repo's own test vector style: encrypt natively, decrypt natively
    for _ in range(5):
        pt, k, hk = rnd.randbytes(rnd.randrange(0, 40)), rnd.randbytes(16), rnd.randbytes(16)
        p = c2.encrypt_packet(pt, k, hk)
        assert c2.decrypt_packet(p, k, hk)[:len(pt)] == pt
        n += 1
    return dict(validated=n)
