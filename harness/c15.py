"""C15 — pattern scanners report exactly the true occurrences (DESIGN.md §4 C15)"""
import io as _io
import types

from harness.common import *  # noqa: F401,F403
from symx.values import IoShim, ModelBytesIO
from dissect.cobaltstrike import utils, artifact

UTILS = "dissect.cobaltstrike.utils"

INFO = dict(
    files=["dissect/cobaltstrike/utils.py", "dissect/cobaltstrike/artifact.py"],
    bounds=dict(
        quick="iter_find_needle: haystack 0..8 fully symbolic bytes x needle 1..3 symbolic bytes x read-buffer size 1..5,8 "
        "x start_offset in {None(after seek 0/1), 0, 2} x max_offset in {0, symbolic 1..H}; ArtifactKit: fully symbolic file of "
        "0..18 bytes (maxrange symbolic up to 12), start_offset in {0, None, 3}",
        thorough="haystack 0..12 x needle 1..4 and 7 x buffer 1..9; ArtifactKit file 0..26 bytes (maxrange symbolic up to 20)",
    ),
    outside="haystacks/needles beyond the stated sizes; the real 8192-byte buffer with fully symbolic content (the buffer size is a "
    "parameter of the `io` namespace seen by utils; boundary straddling is covered at small buffer sizes for every alignment); "
    "files that change while being scanned",
    stubs=["io.BytesIO -> pure model (validated against the real object each run)", "io.DEFAULT_BUFFER_SIZE -> parameter"],
    assumptions=["z3 decides QF_BV soundly", "BytesIO model == CPython BytesIO (differentially validated each run)"],
)


def io_shim(B):
    return type("IoShimB%d" % B, (IoShim,), {"DEFAULT_BUFFER_SIZE": B})


def native_io(B):
    ns = types.SimpleNamespace(**{k: getattr(_io, k) for k in dir(_io) if not k.startswith("__")})
    ns.DEFAULT_BUFFER_SIZE = B
    return ns


def occ(hay, needle, i):
    """z3/bool: needle occurs in hay at i"""
    return hay.match_at(needle.cells, i)


def h_needle(H, n, B, start, limit):
    """start: None -> search from the current position (file pre-seeked to `pre`), else explicit start_offset"""
    def body(ctx):
        hay = sym_bytes("hay", H)
        needle = sym_bytes("needle", n)
        fh = ModelBytesIO(hay)
        if start[0] == "cur":
            fh.seek(start[1])
            s0, so = min(start[1], H) if False else start[1], None
        else:
            s0 = so = start[1]
        mx = 0
        if limit:
            mx = sym_int("max_offset", 1, max(1, H))
        if is_native():
            saved = utils.io
            utils.io = native_io(B)
        else:
            I.set_override(UTILS, "io", io_shim(B))
        try:
            got = list(call(utils.iter_find_needle, fh, needle, so, mx))
        finally:
            if is_native():
                utils.io = saved
            else:
                I.clear_override(UTILS, "io")
        got = [concretize(g) for g in got]
        ctx.prove(len(got) <= max(0, H - n + 1), "no more offsets than positions (got %r)" % (got,))
        # soundness: ascending, unique, within the searched region, true occurrences
        for a, b in zip(got, got[1:]):
            ctx.prove(a < b, "offsets strictly ascending / not duplicated: %r" % (got,))
        for g in got:
            ctx.prove(g >= s0, "reported offset %d lies before the search start %d (or is negative)" % (g, s0))
            if g >= 0:
                ctx.prove(occ(hay, needle, g), "reported offset %d is a true occurrence" % g)
        # completeness
        for i in range(s0, H - n + 1):
            if i in got:
                continue
            o = occ(hay, needle, i)
            if limit:
                # only occurrences lying entirely before the limit must be reported
                inside = compare("<=", i + n, mx)
                ctx.prove(z3.Not(z3.And(V.tobool_expr(o) if not isinstance(o, bool) else z3.BoolVal(o),
                                        V.tobool_expr(inside) if not isinstance(inside, bool) else z3.BoolVal(inside))),
                          "occurrence at %d entirely before the limit is not reported (got %r)" % (i, got))
            else:
                ctx.prove(mkbool(z3.Not(o.e)) if isinstance(o, SymBool) else (not o),
                          "occurrence at %d is not reported (got %r)" % (i, got))
    return body


def u32le(cells):
    v = 0
    for i, c in enumerate(cells[:4]):
        v = binop("+", v, binop("*", SymInt.from_byte(c), 1 << (8 * i)))
    return v


def h_artifact(N, start, use_max):
    def body(ctx):
        data = sym_bytes("file", N)
        fh = ModelBytesIO(data)
        if start[0] == "cur":
            fh.seek(start[1])
            s0, so = start[1], None
        else:
            s0 = so = start[1]
        mr = sym_int("maxrange", 0, N) if use_max else None
        got = list(call(artifact.iter_artifactkit_payloads, fh, so, mr))
        offs = [concretize(g.offset) for g in got]
        ctx.prove(len(offs) <= max(0, N - 3), "no more ArtifactKit hits than positions")
        for a, b in zip(offs, offs[1:]):
            ctx.prove(a < b, "ArtifactKit offsets strictly ascending")
        for p, g in zip(offs, got):
            ctx.prove(s0 <= p <= N - 4, "reported offset inside the scanned region")
            if not (0 <= p <= N - 4):
                continue
            ctx.prove(compare("==", u32le(data.cells[p:p + 4]), p + 16), "reported header satisfies pos+16 == u32(header)")
            if use_max:
                ctx.prove(compare("<=", p, mr), "reported offset is not beyond maxrange")
            size = u32le(data.cells[p + 4:p + 8])
            ctx.prove(deep_eq(g.size, size), "size field == u32le(file[pos+4:pos+8])")
            ctx.prove(deep_eq(as_bytes(g.xorkey), SymBytes(data.cells[p + 8:p + 12])), "xorkey == file[pos+8:pos+12]")
            ctx.prove(deep_eq(as_bytes(g.hints), SymBytes(data.cells[p + 12:p + 20])), "hints == file[pos+12:pos+20]")
            avail = data.cells[p + 20:]
            # payload length = min(size, available); forks only over the (few) feasible values
            k = len(as_bytes(g.payload).cells)
            ctx.prove(compare("==", k, size) if k < len(avail) else compare(">=", size, k),
                      "payload length == min(size, bytes available)")
            key = data.cells[p + 8:p + 12]
            exp = []
            for i in range(min(k, len(avail))):
                exp.append(z3.simplify(bv(avail[i]) ^ bv(key[i % len(key)])) if key else avail[i])
            exp = [e.as_long() if (not isinstance(e, int) and z3.is_bv_value(e)) else e for e in exp]
            ctx.prove(deep_eq(as_bytes(g.payload), SymBytes(exp)), "payload == data xor 4-byte key (tiled)")
        for p in range(max(0, s0), N - 3):
            if p in offs:
                continue
            m = compare("==", u32le(data.cells[p:p + 4]), p + 16)
            if use_max:
                inside = compare("<=", p, mr)
                both = z3.And(*[z3.BoolVal(x) if isinstance(x, bool) else V.tobool_expr(x) for x in (m, inside)])
                ctx.prove(z3.Not(both), "offset %d satisfies the header check within maxrange but is not reported" % p)
            else:
                ctx.prove(mkbool(z3.Not(m.e)) if isinstance(m, SymBool) else (not m),
                          "offset %d satisfies the header check but is not reported" % p)
    return body


def instances(tier):
    q = tier == "quick"
    out = []
    Hs = range(0, 9) if q else range(0, 13)
    ns = (1, 2, 3) if q else (1, 2, 3, 4, 7)
    Bs = (1, 2, 3, 4, 5, 8) if q else range(1, 10)
    for H in Hs:
        for n in ns:
            for B in Bs:
                starts = [("abs", 0)]
                if H >= 3 and B in (2, 3, 5):
                    starts += [("cur", 1), ("abs", 2), ("cur", 0)]
                for st in starts:
                    for limit in ((False, True) if (B in (2, 3) and H >= 2) else (False,)):
                        if not q or (H, n, B) in HEAVY_QUICK or H <= 7 or (B <= 3):
                            out.append(Instance(
                                "needle H=%d n=%d B=%d start=%s%d limit=%s" % (H, n, B, st[0], st[1], limit),
                                h_needle(H, n, B, st, limit),
                                dict(kind="needle", hay=H, needle=n, buffer=B, start=list(st), limit=limit, cost=2 ** H),
                                split=4 if H >= 10 else 0))
    for N in (range(0, 19) if q else range(0, 27)):
        for st, um in ((("abs", 0), False), (("cur", 0), False), (("abs", 3), False), (("abs", 0), True)):
            if st[1] > N:
                continue
            if (st != ("abs", 0) or um) and N % 4 != 0:
                continue
            if um and N > (12 if q else 20):
                continue
            out.append(Instance("artifactkit N=%d start=%s%d maxrange=%s" % (N, st[0], st[1], um), h_artifact(N, st, um),
                                dict(kind="artifactkit", file=N, start=list(st), maxrange=um, cost=1.4 ** N), split=6 if N >= 14 else 0))
    return out


HEAVY_QUICK = set()


def prechecks(tier, seed):
    """BytesIO model vs the real object on random op sequences; interpreter vs CPython on concrete scans"""
    import random

    rnd = random.Random(seed)
    n = 0
    V.Ctx.cur = V.Ctx()
    for _ in range(300):
        data = rnd.randbytes(rnd.randrange(0, 12))
        real, model = _io.BytesIO(data), ModelBytesIO(SymBytes(list(data)))
        for _ in range(8):
            op = rnd.choice(["read", "seek", "tell"])
            if op == "read":
                k = rnd.choice([None, -1, 0, 1, 2, 5, 20])
                a, b = real.read(k), V.to_native(model.read(k))
            elif op == "seek":
                o, w = rnd.randrange(-5, 15), rnd.choice([0, 1, 2])
                try:
                    a = real.seek(o, w)
                except (ValueError, OSError) as e:
                    a = type(e).__name__
                try:
                    b = model.seek(o, w)
                except (ValueError, OSError) as e:
                    b = type(e).__name__
            else:
                a, b = real.tell(), model.tell()
            assert a == b, ("BytesIO model", data, op, a, b)
            n += 1
    # interpreter vs CPython, real buffer size, concrete data
    for _ in range(40):
        hay = bytes(rnd.choice(b"ab\x00") for _ in range(rnd.randrange(0, 40)))
        nd = bytes(rnd.choice(b"ab\x00") for _ in range(rnd.randrange(1, 4)))
        try:
            a = list(utils.iter_find_needle(_io.BytesIO(hay), nd, 0))
        except Exception as e:  # noqa: BLE001
            a = type(e).__name__
        try:
            b = [concretize(x) for x in call(utils.iter_find_needle, ModelBytesIO(SymBytes(list(hay))), SymBytes(list(nd)), 0)]
        except Exception as e:  # noqa: BLE001
            b = type(e).__name__
        assert a == b, ("iter_find_needle interp vs native", hay, nd, a, b)
        n += 1
    return dict(validated=n)
