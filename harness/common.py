"""shared harness plumbing"""
import os
import sys

import z3  # noqa: F401

import symx  # noqa: F401
from symx import values as V
from symx.values import *  # noqa: F401,F403
from symx.interp import Interp
from symx import models_str, models_lib, models_struct, models_re, models_url  # noqa: F401
from framework import Instance  # noqa: F401

I = Interp()


def call(f, *args, **kwargs):
    return I.call(f, list(args), kwargs)


def as_bytes(v):
    """normalise a returned bytes-like value to SymBytes"""
    if isinstance(v, SymBytes):
        return v
    if isinstance(v, (bytes, bytearray)):
        return SymBytes(list(v))
    raise TypeError("expected bytes-like, got %r" % type(v).__name__)


def as_str(v):
    if isinstance(v, SymStr):
        return v
    if isinstance(v, str):
        return SymStr([ord(c) for c in v])
    raise TypeError("expected str, got %r" % type(v).__name__)


def bv(c, w=8):
    return z3.BitVecVal(c, w) if isinstance(c, int) else c


def cells_eq(a, b):
    """cell-wise equality of two cell lists -> bool | z3 expr"""
    if len(a) != len(b):
        return False
    return SymBytes(a).eq(SymBytes(b))


def outcome(f, *args, **kwargs):
    """run f, return ('ok', value) or ('exc', exception instance) for ordinary exceptions"""
    try:
        return "ok", I.call(f, list(args), kwargs)
    except Exception as e:  # noqa: BLE001 — engine signals are BaseException and pass through
        return "exc", e


def bool_expr(v):
    return V.tobool_expr(v)


def iff(a, b):
    a, b = V.tobool_expr(a), V.tobool_expr(b)
    if isinstance(a, bool) and isinstance(b, bool):
        return a == b
    a = z3.BoolVal(a) if isinstance(a, bool) else a
    b = z3.BoolVal(b) if isinstance(b, bool) else b
    return a == b


def tier_pick(tier, quick, thorough):
    return quick if tier == "quick" else thorough
