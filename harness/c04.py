"""C04 — HTTP data transforms follow the Malleable C2 wire format and are invertible (DESIGN.md §4 C04)"""
import itertools

from harness.common import *  # noqa: F401,F403
from dissect.cobaltstrike import c2, utils
from framework import open_findings

INFO = dict(
    files=["dissect/cobaltstrike/c2.py", "dissect/cobaltstrike/utils.py"],
    bounds=dict(
        quick="client programs: every sequence of <=2 encoder steps over {append, prepend, base64, base64url, netbios, netbiosu, mask} "
        "x terminations {print, header, parameter, uri-append} (all four for <=1 step, rotating for 2 steps), payload of 0,1,2,3,5 symbolic bytes, prepend/append arguments of 0..2 "
        "symbolic bytes, fresh symbolic 32-bit mask per mask step; selected two-block (id+output) programs with static _HEADER / "
        "_PARAMETER / _HOSTHEADER decorations; initial request in {None, empty, client-style with URI and headers}; server output "
        "programs (recover format, integer lengths 0..2 symbolic-concrete) of <=2 decoder steps",
        thorough="<=3 encoder steps, payload 0..7 bytes, two- and three-block programs",
    ),
    outside="programs with more encoder steps / longer payloads than the bound; header-name collisions between blocks; HTTP "
    "serialisation (C07/C16); prepend/append arguments longer than 2 bytes",
    stubs=["base64 module -> bit-level model (validated exhaustively for <=3 bytes + random, each run)",
           "random.getrandbits -> fresh symbolic value (same object replays the model value natively)"],
    assumptions=["z3 decides QF_BV soundly", "reference encoder in the harness is the Malleable C2 definition (App. B of DESIGN.md)"],
)

STD = "ABCDEFGHIJKLMNOPQRSTUVWXYZabcdefghijklmnopqrstuvwxyz0123456789+/"
URL = "ABCDEFGHIJKLMNOPQRSTUVWXYZabcdefghijklmnopqrstuvwxyz0123456789-_"


# ------------------------------------------------------------------------------------------ reference encoder (cells)
def _lookup(s6, alphabet):
    """independent formulation: 64-way table lookup"""
    e = z3.BitVecVal(ord(alphabet[63]), 8)
    for i in range(62, -1, -1):
        e = z3.If(s6 == i, z3.BitVecVal(ord(alphabet[i]), 8), e)
    return e


def ref_b64(cells, alphabet, pad=True):
    out = []
    for i in range(0, len(cells), 3):
        grp = cells[i:i + 3]
        n = len(grp)
        bits = z3.Concat(*[bv(c) for c in grp]) if n > 1 else bv(grp[0])
        if n < 3:
            bits = z3.Concat(bits, z3.BitVecVal(0, 8 * (3 - n)))
        for j in range(4):
            if j <= n:
                out.append(z3.simplify(_lookup(z3.Extract(23 - 6 * j, 18 - 6 * j, bits), alphabet)))
            elif pad:
                out.append(ord("="))
    return [c.as_long() if (not isinstance(c, int) and z3.is_bv_value(c)) else c for c in out]


def ref_netbios(cells, base):
    out = []
    for c in cells:
        out.append(z3.simplify(z3.LShR(bv(c), 4) + base))
        out.append(z3.simplify((bv(c) & 15) + base))
    return [c.as_long() if z3.is_bv_value(c) else c for c in out]


def ref_encode(steps, payload_cells, masks, pad=True):
    """steps: list of (name, arg-cells|None). Returns cells. pad=False: the reference peer emits base64 / base64url
    without '=' padding (the library's decoder adds '==' precisely to accept such peers)."""
    data = list(payload_cells)
    mi = 0
    for name, arg in steps:
        if name == "append":
            data = data + list(arg)
        elif name == "prepend":
            data = list(arg) + data
        elif name == "base64":
            data = ref_b64(data, STD, pad)
        elif name == "base64url":
            data = ref_b64(data, URL, pad)
        elif name == "netbios":
            data = ref_netbios(data, ord("a"))
        elif name == "netbiosu":
            data = ref_netbios(data, ord("A"))
        elif name == "mask":
            m = masks[mi]
            mi += 1
            mb = [z3.simplify(z3.Extract(31 - 8 * i, 24 - 8 * i, m)) if not isinstance(m, int) else (m >> (24 - 8 * i)) & 255
                  for i in range(4)]
            mb = [c.as_long() if (not isinstance(c, int) and z3.is_bv_value(c)) else c for c in mb]
            x = [z3.simplify(bv(c) ^ bv(mb[i % 4])) for i, c in enumerate(data)]
            x = [c.as_long() if z3.is_bv_value(c) else c for c in x]
            data = mb + x
        else:
            raise AssertionError(name)
    return data


ENC = ("append", "prepend", "base64", "base64url", "netbios", "netbiosu", "mask")
TERM = ("print", "header", "parameter", "uri_append")


def mask_term(v):
    """32-bit z3 term / int of a recorded random draw"""
    if isinstance(v, int):
        return v
    return z3.Extract(31, 0, v.e) if v.w > 32 else v.e


def build_program(ctx, blocks, tagp=""):
    """blocks: list of (field, enc-step names, termination, static decorations). Returns (library steps, per-block ref info)"""
    steps = []
    info = []
    for bi, (field, encs, term, statics) in enumerate(blocks):
        for sj, st in enumerate(statics):
            if isinstance(st[1], tuple):
                # ("sym", name, n): a static header whose VALUE is n symbolic bytes (any byte, incl. ':' ' ' '=' '&'); the name is
                # concrete and free of ": ", so the header is split at the first ": " = right behind the name
                _, name, n = st[1]
                val = sym_bytes("%sstatic%d_%d" % (tagp, bi, sj), n)
                raw = SymBytes(list(name + b": ") + val.cells)
                ctx.__dict__.setdefault("static_resolved", {})[(bi, sj)] = (name, val)
                steps.append((st[0], V.unwrap(raw) if is_native() else raw))
            else:
                steps.append(st)
        steps.append(("BUILD", field))
        rsteps = []
        for si, name in enumerate(encs):
            if name in ("append", "prepend"):
                alen = ARGLEN[(bi + si) % len(ARGLEN)]
                arg = sym_bytes("%sarg%d_%d" % (tagp, bi, si), alen)
                steps.append((name.upper(), V.unwrap(arg) if is_native() else arg))
                rsteps.append((name, arg.cells))
            else:
                steps.append((name.upper(), True))
                rsteps.append((name, None))
        tname = {"print": None, "header": b"X-Hdr%d" % bi, "parameter": b"p%d" % bi, "uri_append": None}[term]
        steps.append((term.upper(), tname if tname is not None else True))
        info.append((field, rsteps, term, tname))
    return steps, info


ARGLEN = (2, 0, 1)


def h_client(blocks, L, initial, lens=None, absent=()):
    """lens: optional per-field payload length (default L, id at most 3); absent: fields of the program that the caller does not
    provide (C2Data leaves them None): they are encoded as the empty payload"""
    def body(ctx):
        steps, info = build_program(ctx, blocks)
        payloads = {}
        for field in ("metadata", "id", "output"):
            if any(b[0] == field for b in blocks):
                n = (lens or {}).get(field, L if field != "id" else min(L, 3))
                payloads[field] = sym_bytes(field, 0 if field in absent else n)
        c2data = c2.C2Data(**{k: (V.unwrap(v) if is_native() else v) for k, v in payloads.items() if k not in absent})
        if initial == "none":
            req0 = None
            base_uri, base_headers, base_params = b"", {}, {}
        elif initial == "empty":
            req0 = c2.HttpRequest(method=b"", uri=b"", params={}, headers={}, body=b"")
            base_uri, base_headers, base_params = b"", {}, {}
        else:
            base_uri, base_headers, base_params = b"/submit.php", {b"User-Agent": b"Mozilla"}, {}
            req0 = c2.HttpRequest(method=b"POST", uri=base_uri, params=dict(base_params), headers=dict(base_headers), body=b"")
        ctx.draws = []
        t = call(c2.HttpDataTransform, steps)
        kind_t, req = outcome(I.getattr(t, "transform"), c2data, req0)
        ctx.prove(kind_t == "ok", "a valid program is applied without an exception (%r)" % (req,))
        if kind_t != "ok":
            return
        masks = [mask_term(v) for v in getattr(ctx, "draws", [])]
        # ---- (2) wire format: library message == reference message
        exp_headers = dict(base_headers)
        exp_params = dict(base_params)
        exp_body = SymBytes([])
        exp_uri = list(base_uri)
        mi = 0
        for (field, rsteps, term, tname), blk in zip(info, blocks):
            for sj, st in enumerate(blk[3]):
                if isinstance(st[1], tuple):
                    k, v = ctx.static_resolved[(info.index((field, rsteps, term, tname)), sj)]
                else:
                    k, _, v = st[1].partition(b": " if st[0] != "_PARAMETER" else b"=")
                if st[0] == "_PARAMETER":
                    exp_params[k] = v
                else:
                    exp_headers[k] = v
            nm = sum(1 for n, _ in rsteps if n == "mask")
            enc = SymBytes(ref_encode(rsteps, payloads[field].cells, masks[mi:mi + nm]))
            mi += nm
            if term == "print":
                exp_body = enc
            elif term == "header":
                exp_headers[tname] = enc
            elif term == "parameter":
                exp_params[tname] = enc
            else:
                exp_uri = exp_uri + enc.cells
        ctx.prove(deep_eq(as_bytes(req.body), exp_body), "body == reference encoding (print termination)")
        ctx.prove(deep_eq(as_bytes(req.uri), SymBytes(exp_uri)), "uri == base uri + reference encoding (uri-append)")
        ctx.prove(list(req.headers.keys()) == list(exp_headers.keys()), "header names as defined: %r vs %r" % (list(req.headers), list(exp_headers)))
        ctx.prove(list(req.params.keys()) == list(exp_params.keys()), "parameter names as defined: %r vs %r" % (list(req.params), list(exp_params)))
        for k in exp_headers:
            if k in req.headers:
                ctx.prove(deep_eq(as_bytes(req.headers[k]), as_bytes(exp_headers[k])), "header %r value == reference" % k)
        for k in exp_params:
            if k in req.params:
                ctx.prove(deep_eq(as_bytes(req.params[k]), as_bytes(exp_params[k])), "parameter %r value == reference" % k)
        # ---- (1) invertibility: recover(transform(x)) == x
        kind, back = outcome(I.getattr(t, "recover"), req)
        ctx.prove(kind == "ok", "recover of a library-produced message does not fail (%r)" % (back,))
        if kind == "ok":
            for field in ("metadata", "id", "output"):
                got = getattr(back, field)
                if field in absent:
                    ctx.prove(got is None or len(as_bytes(got).cells) == 0, "a field the caller did not provide recovers as empty")
                elif field in payloads:
                    ctx.prove(got is not None and deep_eq(as_bytes(got), payloads[field]) if got is not None else False,
                              "recover(transform(x)).%s == x.%s" % (field, field))
                else:
                    ctx.prove(got is None, "field %s not in the program stays None" % field)
    return body


def h_reference_unpadded(encs, term, L):
    """direction reference -> library: a message produced by the reference encoder WITHOUT base64 padding (fixed
    symbolic masks) is recovered by the library to the original data"""
    def body(ctx):
        steps, info = build_program(ctx, [("metadata", encs, term, [])])
        payload = sym_bytes("metadata", L)
        masks = [sym_int("mask%d" % i, 0, 0xFFFFFFFF) for i, e in enumerate(encs) if e == "mask"]
        mterms = [mask_term(m) for m in masks]
        (field, rsteps, term_, tname) = info[0]
        enc = SymBytes(ref_encode(rsteps, payload.cells, mterms, pad=False))
        encv = V.unwrap(enc) if is_native() else enc
        req = c2.HttpRequest(method=b"GET", uri=encv if term == "uri_append" else b"", params={tname: encv} if term == "parameter" else {},
                             headers={tname: encv} if term == "header" else {}, body=encv if term == "print" else b"")
        t = call(c2.HttpDataTransform, steps)
        kind, back = outcome(I.getattr(t, "recover"), req)
        ctx.prove(kind == "ok", "library recovers a reference-encoded (unpadded base64) message (%r)" % (back,))
        if kind == "ok":
            ctx.prove(back.metadata is not None and deep_eq(as_bytes(back.metadata), payload) if back.metadata is not None else False,
                      "library-recover(reference message without base64 padding) == x")
    return body


def h_server(decs, L, lens):
    """server output program in recover format (as parse_recover_binary produces it): print, then decoders"""
    def body(ctx):
        rsteps = [("print", True)]
        li = 0
        for name in decs:
            if name in ("append", "prepend"):
                rsteps.append((name, lens[li % len(lens)]))
                li += 1
            else:
                rsteps.append((name, True))
        snapshot = list(rsteps)
        payload = sym_bytes("output", L)
        ctx.draws = []
        t = call(c2.HttpDataTransform, rsteps, True, "output")
        req = call(I.getattr(t, "transform"), c2.C2Data(output=V.unwrap(payload) if is_native() else payload))
        masks = [mask_term(v) for v in getattr(ctx, "draws", [])]
        # reference: the encoder order is the reverse of the recover order; unknown prepend/append text is 'X' * n
        enc_steps = []
        li2 = li
        for name in reversed(decs):
            if name in ("append", "prepend"):
                li2 -= 1
                enc_steps.append((name, [ord("X")] * lens[li2 % len(lens)]))
            else:
                enc_steps.append((name, None))
        exp = SymBytes(ref_encode(enc_steps, payload.cells, masks))
        ctx.prove(deep_eq(as_bytes(req.body), exp), "server body == reference encoding of the output")
        resp = c2.HttpResponse(status=200, headers=req.headers, reason=b"OK", body=req.body)
        kind, back = outcome(I.getattr(t, "recover"), resp)
        ctx.prove(kind == "ok", "recover of the server message does not fail (%r)" % (back,))
        if kind == "ok":
            ctx.prove(back.output is not None and deep_eq(as_bytes(back.output), payload) if back.output is not None else False,
                      "recover(transform(output)) == output (server side)")
            ctx.prove(back.metadata is None and back.id is None, "server data carries only output")
    return body


def region_uri_append_base(blocks, initial):
    return initial == "client" and any(b[2] == "uri_append" for b in blocks)


def instances(tier):
    q = tier == "quick"
    out = []
    known = {f["id"] for f in open_findings("C04")}
    maxlen = 2 if q else 3
    seqs = [()]
    for k in range(1, maxlen + 1):
        seqs += list(itertools.product(ENC, repeat=k))
    Ls = (0, 1, 2, 3, 5) if q else (0, 1, 2, 3, 4, 5, 6, 7)
    for si, encs in enumerate(seqs):
        for ti, term in enumerate(TERM):
            # placement is independent of the encoder steps: in the quick tier two-step programs rotate through the
            # terminations instead of taking the full product (the thorough tier takes it)
            if q and len(encs) == 2 and ti != si % 4:
                continue
            for L in Ls:
                if len(encs) == 3 and L not in (2, 5):
                    continue
                if len(encs) == 3 and sum(1 for e in encs if e in ("mask", "base64", "base64url")) == 3 and L != 2:
                    continue
                if sum(1 for e in encs if e.startswith("base64")) >= 2 and L > 5:
                    continue
                blocks = [("metadata", encs, term, [])]
                name = "client %s -> %s L=%d" % ("/".join(encs) or "-", term, L)
                out.append(Instance(name, h_client(blocks, L, "none"), dict(kind="client", steps=list(encs), term=term, L=L, cost=L + 1)))
    # reference -> library direction with an unpadded base64 peer
    for encs in seqs:
        if not any(e.startswith("base64") for e in encs):
            continue
        for L in ((0, 1, 2, 3) if q else (0, 1, 2, 3, 4, 5, 7)):
            term = TERM[(len(encs) + L) % 4]
            out.append(Instance("reference(unpadded) %s -> %s L=%d" % ("/".join(encs), term, L), h_reference_unpadded(encs, term, L),
                                dict(kind="reference_unpadded", steps=list(encs), term=term, L=L)))
    # initial requests, static decorations, two-block programs
    statics = [("_HEADER", b"Accept: */*"), ("_PARAMETER", b"k=v"), ("_HOSTHEADER", b"Host: example.org")]
    multi = []
    for encs, term in ((("base64",), "header"), (("netbios", "prepend"), "parameter"), (("mask", "base64url"), "uri_append"),
                       ((), "print"), (("append",), "print")):
        for init in ("empty", "client"):
            multi.append(([("metadata", encs, term, [])], init))
        for st in statics:
            multi.append(([("metadata", encs, term, [st])], "none"))
    for (e1, t1), (e2, t2) in ((((("base64url",), "parameter")), ((("mask", "base64"), "print"))),
                               (((("netbios",), "header")), ((("prepend", "base64"), "print"))),
                               ((((), "uri_append")), ((("mask",), "print"))),
                               (((("base64",), "header")), ((("append", "netbiosu"), "parameter")))):
        for init in ("none", "client"):
            multi.append(([("id", e1, t1, []), ("output", e2, t2, [statics[0]])], init))
    if not q:
        for (e1, t1), (e2, t2), (e3, t3) in (((("base64",), "header"), (("netbios",), "parameter"), (("mask", "base64"), "print")),):
            multi.append(([("metadata", e1, t1, []), ("id", e2, t2, []), ("output", e3, t3, [statics[1]])], "none"))
    for blocks, init in multi:
        for L in ((0, 3) if q else (0, 1, 3, 5)):
            nm = "client blocks=%s init=%s L=%d" % ("+".join("%s:%s>%s%s" % (b[0], "/".join(b[1]) or "-", b[2], "".join("," + s[0] for s in b[3])) for b in blocks), init, L)
            inregion = region_uri_append_base(blocks, init)
            if inregion and "D8" in known:
                out.append(Instance(nm, h_client(blocks, L, init), dict(kind="client_multi", L=L, init=init, region="D8"), expect="D8"))
            else:
                out.append(Instance(nm, h_client(blocks, L, init), dict(kind="client_multi", L=L, init=init)))
    # blocks of different payload lengths: an EMPTY or absent payload behind a non-empty block (each block starts from its own
    # payload, nothing of the previous block may leak into it)
    for b1, b2 in ((("id", ("prepend",), "header", []), ("output", ("base64",), "print", [])),
                   (("metadata", ("netbios", "append"), "parameter", []), ("output", ("mask",), "print", [])),
                   (("id", (), "parameter", []), ("output", ("prepend", "base64url"), "header", []))):
        for lens, absent in ((dict([(b1[0], 2), (b2[0], 0)]), ()), (dict([(b1[0], 2)]), (b2[0],)), (dict([(b1[0], 0), (b2[0], 3)]), ())):
            nm = "client blocks=%s:%s>%s+%s:%s>%s lens=%s absent=%s" % (b1[0], "/".join(b1[1]) or "-", b1[2], b2[0], "/".join(b2[1]) or "-", b2[2],
                                                                         ",".join("%s=%d" % kv for kv in lens.items()), ",".join(absent) or "-")
            out.append(Instance(nm, h_client([b1, b2], 2, "none", lens, absent), dict(kind="client_mixed_lengths", lens=lens, absent=list(absent))))
    # static parameters with characters that URL-decoding would change: they are placed exactly as defined (key up to the first '=')
    for raw in (b"q=a%20b+c", b"flag", b"e=", b"a=1&b=2", b"x=%zz=1"):
        out.append(Instance("client static parameter %r" % raw, h_client([("metadata", ("base64",), "header", [("_PARAMETER", raw)])], 2, "none"),
                            dict(kind="client_static", static=raw.decode())))
    # static headers with a SYMBOLIC value (3 bytes, any byte value: ": " / ':' / '=' inside the value included): placed under the
    # name in front of the first ": ", value byte-exact
    for kind in ("_HEADER", "_HOSTHEADER"):
        for term in (("print",) if q else ("print", "parameter")):
            out.append(Instance("client static %s with symbolic value -> %s" % (kind, term), h_client([("metadata", ("base64",), term, [(kind, ("sym", b"X-Trace", 3))])], 2, "none"),
                                dict(kind="client_static_symbolic", static=kind, value_bytes=3)))
    dseqs = [()]
    DEC = ("append", "prepend", "base64", "base64url", "netbios", "netbiosu", "mask")
    for k in range(1, maxlen + 1):
        dseqs += list(itertools.product(DEC, repeat=k))
    for decs in dseqs:
        for L in ((0, 2, 5) if q else (0, 1, 2, 3, 5, 7)):
            if len(decs) == 3 and L not in (0, 5):
                continue
            for lens in (((0, 2),) if q else ((0, 2), (1, 0), (3, 1))):
                if not any(d in ("append", "prepend") for d in decs) and lens != (0, 2):
                    continue
                out.append(Instance("server %s L=%d lens=%s" % ("/".join(decs) or "-", L, lens), h_server(decs, L, lens),
                                    dict(kind="server", steps=list(decs), L=L, lens=list(lens))))
    for i in out:
        i.native_patches = [(c2, "random", models_lib.RandomShim)]
    return out


def prechecks(tier, seed):
    """base64 model and the reference encoder against CPython (exhaustive <= 2 bytes + random); interpreter vs CPython
    on the repo's own transform test vectors"""
    import base64
    import random

    rnd = random.Random(seed)
    V.Ctx.cur = V.Ctx()
    n = 0
    vecs = [bytes(t) for L in range(0, 3) for t in itertools.product(range(0, 256, 3 if L < 2 else 37), repeat=L)]
    vecs += [rnd.randbytes(rnd.randrange(3, 12)) for _ in range(40)]
    for d in vecs:
        for alpha, enc, dec, menc, mdec in ((STD, base64.b64encode, base64.b64decode, models_lib.Base64Shim.b64encode, models_lib.Base64Shim.b64decode),
                                            (URL, base64.urlsafe_b64encode, base64.urlsafe_b64decode, models_lib.Base64Shim.urlsafe_b64encode, models_lib.Base64Shim.urlsafe_b64decode)):
            e = enc(d)
            assert bytes(ref_b64(list(d), alpha)) == e, ("reference b64", d)
            # force the symbolic code path of the model: wrap one cell as a z3 constant
            sym = SymBytes([z3.BitVecVal(c, 8) for c in d]) if d else SymBytes([])
            got = menc(sym)
            got = bytes(z3.simplify(bv(c)).as_long() for c in seq_cells(got, SymBytes))
            assert got == e, ("model b64encode", d, got, e)
            back = mdec(SymBytes([z3.BitVecVal(c, 8) for c in e + b"=="]))
            back = bytes(z3.simplify(bv(c)).as_long() for c in seq_cells(back, SymBytes))
            assert back == dec(e + b"=="), ("model b64decode", d)
            n += 3
    for d in vecs[:300]:
        assert bytes(ref_netbios(list(d), 65)) == utils.netbios_encode(d)
        n += 1
    return dict(validated=n)
