"""C20 — byte-level codecs and stager URI classification are exact (DESIGN.md §4 C20)"""
import itertools

from harness.common import *  # noqa: F401,F403
from dissect.cobaltstrike import utils, pcap

INFO = dict(
    files=["dissect/cobaltstrike/utils.py", "dissect/cobaltstrike/pcap.py"],
    bounds=dict(
        quick="xor: data<=8 x key<=9 symbolic bytes (7 shapes); netbios: 0..6 bytes, offset 0..240; pack/unpack: widths "
        "1,2,4,8 x 2 byte orders x signed/unsigned, value symbolic in [-2^(8w), 2^(8w+1)); URIs: 0..5 symbolic code points "
        "(full Unicode, 21 bit); random_stager_uri: lengths 3,4,5 (x86) and 4 (x64), first 2 loop iterations; "
        "find_staged_beacon: request URI of 0..5 symbolic bytes",
        thorough="xor: data<=16 x key<=20 (14 shapes); netbios: 0..8 bytes; URIs 0..6 code points; random_stager_uri lengths "
        "3..8, 3 loop iterations; find_staged_beacon URI 0..6 bytes",
    ),
    outside="longer inputs; pack() with size=None (bit_length of a symbolic int); random_stager_uri beyond the bounded "
    "number of retry iterations (cut recorded: later iterations execute the same code on fresh draws)",
    stubs=["random.choice -> fresh symbolic element of the alphabet", "re.match -> sre-parser based matcher model "
           "(validated exhaustively against re on short strings)", "BeaconConfig.from_bytes -> call recorder "
           "(find_staged_beacon gate only)", "logging -> no-op"],
    assumptions=["z3 decides QF_BV soundly", "CPython semantics of int/bytes/str builtins as modelled (validated "
                 "differentially each run)"],
)


# ---------------------------------------------------------------------------------------------------------- xor
def h_xor(L, K):
    def body(ctx):
        data = sym_bytes("data", L)
        key = sym_bytes("key", K)
        once = as_bytes(call(utils.xor, data, key))
        ctx.prove(len(once.cells) == L, "xor is length preserving")
        if len(once.cells) == L:
            for i in range(L):
                exp = (bv(data.cells[i]) ^ bv(key.cells[i % K])) if K else data.cells[i]
                ctx.prove(SymBytes([once.cells[i]]).eq(SymBytes([z3.simplify(exp) if K else exp])),
                          "xor pointwise: out[%d] == data[%d] ^ key[%d %% %d]" % (i, i, i, K))
        twice = as_bytes(call(utils.xor, once, key))
        ctx.prove(twice.eq(data), "xor is self-inverse")
    return body


def h_xor_long(L, K, probes):
    """long inputs (beyond any internal block size): concrete filler with symbolic bytes at the probe positions, symbolic key; the
    pointwise specification is proved at the probe positions and at the positions around 4 KiB / 64 KiB multiples"""
    def body(ctx):
        key = sym_bytes("key", K)
        cells = [(i * 7 + 3) & 0xFF for i in range(L)]
        sd = sym_bytes("data_at_probes", len(probes))
        for p_, c in zip(probes, sd.cells):
            cells[p_] = c
        data = SymBytes(cells)
        once = as_bytes(call(utils.xor, data, key))
        ctx.prove(len(once.cells) == L, "xor is length preserving (%d bytes)" % L)
        if len(once.cells) != L:
            return
        look = sorted(set(list(probes) + [i for b in (4096, 8192, 65536, 131072) for i in range(b - 2, b + 3) if 0 <= i < L] + [L - 1]))
        for i in look:
            exp = z3.simplify(bv(cells[i]) ^ bv(key.cells[i % K]))
            ctx.prove(SymBytes([once.cells[i]]).eq(SymBytes([exp])), "xor pointwise on a long input: out[%d] == data[%d] ^ key[%d %% %d]" % (i, i, i, K))
    return body


# ---------------------------------------------------------------------------------------------------------- netbios
def h_netbios(L, upper):
    def body(ctx):
        data = sym_bytes("data", L)
        off = sym_int("offset", 0, 240)
        enc = as_bytes(call(utils.netbios_encode, data, off))
        ctx.prove(len(enc.cells) == 2 * L, "netbios_encode doubles the length")
        # wire format: high nibble first, each + offset
        for i in range(min(L, len(enc.cells) // 2)):
            d = bv(data.cells[i])
            hi = z3.ZeroExt(8, z3.LShR(d, 4)) + (off.e if isinstance(off, SymInt) and off.w == 16 else z3.BitVecVal(0, 16))
            # compare through integers (exact): enc[2i] == (d >> 4) + off
            a = binop("+", SymInt.from_byte(z3.simplify(z3.LShR(d, 4))) if not isinstance(data.cells[i], int) else data.cells[i] >> 4, off)
            b = binop("+", SymInt.from_byte(z3.simplify(d & 15)) if not isinstance(data.cells[i], int) else data.cells[i] & 15, off)
            ctx.prove(compare("==", SymInt.from_byte(enc.cells[2 * i]), a), "netbios high nibble placement")
            ctx.prove(compare("==", SymInt.from_byte(enc.cells[2 * i + 1]), b), "netbios low nibble placement")
        dec = as_bytes(call(utils.netbios_decode, enc, off))
        ctx.prove(dec.eq(data), "netbios_decode inverts netbios_encode")
    return body


# ---------------------------------------------------------------------------------------------------------- pack/unpack
def h_pack(width, order, signed):
    bits = 8 * width
    lo, hi = (-(1 << (bits - 1)), (1 << (bits - 1)) - 1) if signed else (0, (1 << bits) - 1)

    def body(ctx):
        n = sym_int("n", -(1 << bits), (1 << (bits + 1)) - 1)
        inrange = V.tobool_expr(compare("<=", lo, n)), V.tobool_expr(compare("<=", n, hi))
        kind, r = outcome(utils.pack, n, width, order, signed)
        if kind == "exc":
            ctx.prove(isinstance(r, OverflowError), "pack raises only OverflowError (got %s)" % type(r).__name__)
            ctx.prove(z3.Not(z3.And(*[z3.BoolVal(x) if isinstance(x, bool) else x for x in inrange])),
                      "pack raises OverflowError only outside the representable range")
            return
        ctx.prove(z3.And(*[z3.BoolVal(x) if isinstance(x, bool) else x for x in inrange]),
                  "pack succeeds only inside the representable range")
        packed = as_bytes(r)
        ctx.prove(len(packed.cells) == width, "pack produces exactly `size` bytes")
        back = call(utils.unpack, packed, width, order, signed)
        ctx.prove(compare("==", back, n), "unpack(pack(n)) == n")
    return body


def h_unpack(width, order, signed):
    def body(ctx):
        data = sym_bytes("data", width)
        n = call(utils.unpack, data, width, order, signed)
        # reference value: sum of byte * 256^position (independent of int.from_bytes model: built from cells)
        cells = data.cells if order == "little" else data.cells[::-1]
        ref = 0
        for i, c in enumerate(cells):
            ref = binop("+", ref, binop("*", SymInt.from_byte(c), 1 << (8 * i)))
        if signed:
            top = SymInt.from_byte(cells[-1])
            if truth(compare(">=", top, 128)):
                ref = binop("-", ref, 1 << (8 * width))
        ctx.prove(compare("==", n, ref), "unpack value == positional sum")
        back = as_bytes(call(utils.pack, n, width, order, signed))
        ctx.prove(back.eq(data), "pack(unpack(b)) == b")
    return body


def h_partials(width):
    """the u*/p* partials are bound to the right width and byte order"""
    names = {1: ("u8", "p8", None, None), 2: ("u16", "p16", "u16be", "p16be"), 4: ("u32", "p32", "u32be", "p32be"),
             8: ("u64", "p64", "u64be", "p64be")}[width]

    def body(ctx):
        data = sym_bytes("data", width + 1)  # one extra byte: the partial must ignore it
        for uname, pname, order in ((names[0], names[1], "little"), (names[2], names[3], "big")):
            if uname is None:
                continue
            n = call(getattr(utils, uname), data)
            cells = data.cells[:width] if order == "little" else data.cells[:width][::-1]
            ref = 0
            for i, c in enumerate(cells):
                ref = binop("+", ref, binop("*", SymInt.from_byte(c), 1 << (8 * i)))
            ctx.prove(compare("==", n, ref), "%s reads %d bytes %s-endian unsigned" % (uname, width, order))
            back = as_bytes(call(getattr(utils, pname), n))
            ctx.prove(back.eq(SymBytes(data.cells[:width])), "%s(%s(b)) == b" % (pname, uname))
    return body


# ---------------------------------------------------------------------------------------------------------- checksum8
def ref_checksum8(uri):
    """definition: sum of the code points of the characters other than '/', mod 256; strings shorter than 4 -> 0.
    Returns an 8-bit z3 term (or int)."""
    if len(uri.cells) < 4:
        return 0
    acc = z3.BitVecVal(0, 8)
    for c in uri.cells:
        cc = z3.BitVecVal(c, 21) if isinstance(c, int) else c
        acc = acc + z3.If(cc == 47, z3.BitVecVal(0, 8), z3.Extract(7, 0, cc))
    acc = z3.simplify(acc)
    return acc.as_long() if z3.is_bv_value(acc) else acc


def ref_alnum(c):
    cc = z3.BitVecVal(c, 21) if isinstance(c, int) else c
    return z3.Or(z3.And(z3.UGE(cc, 48), z3.ULE(cc, 57)), z3.And(z3.UGE(cc, 65), z3.ULE(cc, 90)),
                 z3.And(z3.UGE(cc, 97), z3.ULE(cc, 122)))


def ref_x64(uri):
    cs = ref_checksum8(uri)
    if len(uri.cells) != 5:
        return False
    c0 = uri.cells[0]
    shape = z3.And((z3.BitVecVal(c0, 21) if isinstance(c0, int) else c0) == 47, *[ref_alnum(c) for c in uri.cells[1:]])
    return z3.simplify(z3.And(shape, (z3.BitVecVal(cs, 8) if isinstance(cs, int) else cs) == 93))


def ref_x86(uri):
    cs = ref_checksum8(uri)
    if isinstance(cs, int):
        return cs == 92
    return cs == 92


def h_classify(L, lead=""):
    def body(ctx):
        uri = sym_str("uri", L)
        if lead:
            uri = SymStr([ord(c) for c in lead] + uri.cells)
        cs = call(utils.checksum8, uri)
        ref = ref_checksum8(uri)
        refi = ref if isinstance(ref, int) else SymInt.make(z3.ZeroExt(1, ref), 0, 255)
        ctx.prove(compare("==", cs, refi), "checksum8 == sum of code points without '/' mod 256 (0 below 4 chars)")
        x86 = call(utils.is_stager_x86, uri)
        ctx.prove(iff(x86, ref_x86(uri)), "is_stager_x86 <=> checksum8 == 92")
        x64 = call(utils.is_stager_x64, uri)
        ctx.prove(iff(x64, ref_x64(uri)), "is_stager_x64 <=> checksum8 == 93 and uri is '/' + four alphanumerics")
    return body


def h_random_uri(x64, length, iters):
    def body(ctx):
        old = Interp.MAX_LOOP
        Interp.MAX_LOOP = iters
        try:
            try:
                uri = call(utils.random_stager_uri, x64=x64, length=length)
            except UnwindLimit:
                raise PathAbort()  # cut: more than `iters` retries (same code on fresh draws) — outside the bound
        finally:
            Interp.MAX_LOOP = old
        uri = as_str(uri)
        ctx.prove(len(uri.cells) == length + 1, "generated URI has the requested length")
        c0 = uri.cells[0]
        ctx.prove(c0 == 47 if isinstance(c0, int) else mkbool(c0 == 47), "generated URI starts with '/'")
        ctx.prove(ref_x64(uri) if x64 else ref_x86(uri), "generated stager URI satisfies its classifier definition")
    return body


def h_random_uri_args():
    def body(ctx):
        for kw in (dict(x64=True, length=5), dict(x64=True, length=3), dict(x64=False, length=2), dict(length=0)):
            kind, r = outcome(utils.random_stager_uri, **kw)
            ctx.prove(kind == "exc" and isinstance(r, ValueError), "random_stager_uri(%r) raises ValueError" % (kw,))
    return body


def h_exists(x64, length):
    """liveness side condition: a URI of this length accepted by the classifier *definition* exists over the
    generator's alphabet (solver `sat`, witness fixed) and the real classifier accepts that witness — so the retry
    loop of random_stager_uri can terminate"""
    def body(ctx):
        uri = sym_str("uri", length + 1)
        ctx.assume(mkbool(uri.cells[0] == 47) if not isinstance(uri.cells[0], int) else uri.cells[0] == 47)
        for c in uri.cells[1:]:
            ctx.assume(mkbool(ref_alnum(c)) if not isinstance(c, int) else bool(z3.is_true(z3.simplify(ref_alnum(c)))))
        r = ref_x64(uri) if x64 else ref_x86(uri)
        ctx.assume(r if isinstance(r, bool) else mkbool(r))
        w = ctx.witness(uri)
        ok = call(utils.is_stager_x64 if x64 else utils.is_stager_x86, w)
        ctx.prove(ok, "real classifier accepts the witness URI %r found for the definition" % (w,))
    return body


# ---------------------------------------------------------------------------------------------------------- pcap gate
class _Recorder:
    def __init__(self):
        self.calls = 0


def h_staged(L):
    from dissect.cobaltstrike import beacon, c2

    def body(ctx):
        uri = sym_bytes("uri", L)
        rec = _Recorder()

        def fake_from_bytes(*a, **k):
            rec.calls += 1
            raise ValueError("no beacon config (recorder stub)")

        request = c2.HttpRequest(method=b"GET", uri=V.unwrap(uri) if is_native() else uri, params={}, headers={}, body=b"")
        response = c2.HttpResponse(status=200, headers={}, reason=b"OK", body=b"\x00" * 8, request=request)
        # oracle on the ASCII-sanitised URI (bytes >= 0x80 dropped, as documented by decode(errors='ignore'))
        kept = []
        for c in uri.cells:
            if truth(compare("<", SymInt.from_byte(c), 128)):
                kept.append(c if isinstance(c, int) else z3.ZeroExt(13, c))
        text = SymStr(kept)
        is_stager = z3.Or(V.tobool_expr(ref_x86(text)) if not isinstance(ref_x86(text), bool) else z3.BoolVal(ref_x86(text)),
                          ref_x64(text) if not isinstance(ref_x64(text), bool) else z3.BoolVal(ref_x64(text)))
        if is_native():
            saved = beacon.BeaconConfig.from_bytes
            pcap.BeaconConfig.from_bytes = fake_from_bytes
            try:
                r = pcap.BeaconCapture.find_staged_beacon(None, response)
            finally:
                pcap.BeaconConfig.from_bytes = saved
        else:
            I.stubs[beacon.BeaconConfig.from_bytes.__func__] = lambda cls, *a, **k: fake_from_bytes()
            try:
                r = call(pcap.BeaconCapture.find_staged_beacon, None, response)
            finally:
                del I.stubs[beacon.BeaconConfig.from_bytes.__func__]
        ctx.prove(r is None, "recorder stub finds no config, so the result is None")
        ctx.prove(iff(rec.calls > 0, z3.simplify(is_stager)),
                  "response body is inspected iff the request URI is a stager URI (known non-stager request => never)")
        ctx.prove(rec.calls <= 1, "body inspected at most once")
    return body


def h_staged_norequest():
    from dissect.cobaltstrike import beacon, c2

    def body(ctx):
        body_ = sym_bytes("body", 4)
        response = c2.HttpResponse(status=200, headers={}, reason=b"OK", body=V.to_native(body_) if is_native() else body_,
                                   request=None)
        rec = _Recorder()

        def fake(cls, *a, **k):
            rec.calls += 1
            raise ValueError("x")

        if is_native():
            saved = beacon.BeaconConfig.from_bytes
            pcap.BeaconConfig.from_bytes = lambda *a, **k: fake(None)
            try:
                r = pcap.BeaconCapture.find_staged_beacon(None, response)
            finally:
                pcap.BeaconConfig.from_bytes = saved
        else:
            I.stubs[beacon.BeaconConfig.from_bytes.__func__] = fake
            try:
                r = call(pcap.BeaconCapture.find_staged_beacon, None, response)
            finally:
                del I.stubs[beacon.BeaconConfig.from_bytes.__func__]
        ctx.prove(rec.calls == 1 and r is None, "response without a known request is always inspected")
    return body


def instances(tier):
    q = tier == "quick"
    out = []
    xor_shapes = [(0, 0), (0, 2), (3, 0), (4, 1), (4, 4), (5, 3), (3, 7), (8, 9)] if q else [
        (0, 0), (0, 2), (3, 0), (1, 1), (4, 1), (4, 4), (5, 3), (3, 7), (8, 4), (8, 9), (16, 5), (16, 16), (15, 20), (7, 2)]
    for L, K in xor_shapes:
        out.append(Instance("xor L=%d K=%d" % (L, K), h_xor(L, K), dict(kind="xor", data_len=L, key_len=K)))
    for L, K in (((65541, 3),) if q else ((65541, 3), (8197, 5), (131077, 7), (65541, 4))):
        out.append(Instance("xor long L=%d K=%d" % (L, K), h_xor_long(L, K, (0, 4095, 4096, L - 4, L - 1) + ((65535, 65536) if L > 65536 else ())),
                            dict(kind="xor_long", data_len=L, key_len=K, cost=500), max_loop=200000))
    for L in (range(0, 7) if q else range(0, 9)):
        out.append(Instance("netbios L=%d" % L, h_netbios(L, False), dict(kind="netbios", data_len=L)))
    for w, order, signed in itertools.product((1, 2, 4, 8), ("little", "big"), (False, True)):
        out.append(Instance("pack w=%d %s signed=%s" % (w, order, signed), h_pack(w, order, signed),
                            dict(kind="pack", width=w, order=order, signed=signed)))
        out.append(Instance("unpack w=%d %s signed=%s" % (w, order, signed), h_unpack(w, order, signed),
                            dict(kind="unpack", width=w, order=order, signed=signed)))
    for w in (1, 2, 4, 8):
        out.append(Instance("partials w=%d" % w, h_partials(w), dict(kind="partials", width=w)))
    for L in (range(0, 6) if q else range(0, 7)):
        out.append(Instance("classify L=%d" % L, h_classify(L), dict(kind="classify", uri_len=L, cost=3 ** L), split=6))
    # structure-aware: '/' + symbolic tail one longer than the accepted shape (covers the end-anchor of the x64 rule)
    out.append(Instance("classify '/' + 5", h_classify(5, "/"), dict(kind="classify", uri_len=6, lead="/", cost=300), split=6))
    iters = 2 if q else 3
    for x64, length in ([(False, 3), (False, 4), (False, 5), (True, 4)] if q else
                        [(False, n) for n in range(3, 9)] + [(True, 4)]):
        out.append(Instance("random_stager_uri x64=%s len=%d" % (x64, length), h_random_uri(x64, length, iters),
                            dict(kind="random_uri", x64=x64, length=length, loop_iterations=iters),
                            native_patches=[(utils, "random", models_lib.RandomShim)], split=4))
    out.append(Instance("random_stager_uri bad arguments", h_random_uri_args(), dict(kind="random_uri_args")))
    for x64, length in [(False, n) for n in range(3, 13)] + [(True, 4)]:
        out.append(Instance("stager URI exists x64=%s len=%d" % (x64, length), h_exists(x64, length),
                            dict(kind="exists", x64=x64, length=length)))
    for L in (range(0, 6) if q else range(0, 7)):
        out.append(Instance("find_staged_beacon gate L=%d" % L, h_staged(L), dict(kind="staged", uri_len=L, cost=3 ** L),
                            split=6))
    out.append(Instance("find_staged_beacon without request", h_staged_norequest(), dict(kind="staged_noreq")))
    return out


def prechecks(tier, seed):
    """model validation: interpreter+models vs CPython on concrete vectors; regex model vs `re` exhaustively"""
    import random
    import re

    rnd = random.Random(seed)
    n = 0
    # the repo's own test vectors + random ones through both engines
    vecs = [(b"hello", b"\x01\x02"), (b"", b"k"), (b"abc", b""), (b"\x00" * 5, b"\x00\x00"), (b"\xff" * 9, b"\x01\x02\x03")]
    for _ in range(30):
        vecs.append((rnd.randbytes(rnd.randrange(0, 20)), rnd.randbytes(rnd.randrange(0, 6))))
    V.Ctx.cur = V.Ctx()
    for d, k in vecs:
        a = utils.xor(d, k)
        b = call(utils.xor, SymBytes(list(d)), SymBytes(list(k)))
        assert V.to_native(as_bytes(b)) == a, ("xor", d, k)
        n += 1
        off = rnd.randrange(0, 200)
        a = utils.netbios_encode(d, off) if all(((c >> 4) + off) < 256 and ((c & 15) + off) < 256 for c in d) else None
        if a is not None:
            b = call(utils.netbios_encode, SymBytes(list(d)), off)
            assert V.to_native(as_bytes(b)) == a, ("netbios", d, off)
            assert V.to_native(as_bytes(call(utils.netbios_decode, b, off))) == utils.netbios_decode(a, off)
            n += 1
    for uri in ["/H7mp", "/TOKn", "/oOo0", "/oO/o0", "/spy", "releasenotes.txt", "undisappointing", "/pendants", "",
                "/00zy\n", "/ab", "////", "Āabc/"]:
        assert call(utils.checksum8, SymStr([ord(c) for c in uri])) == utils.checksum8(uri), uri
        assert bool(call(utils.is_stager_x64, SymStr([ord(c) for c in uri]))) == utils.is_stager_x64(uri), uri
        assert bool(call(utils.is_stager_x86, SymStr([ord(c) for c in uri]))) == utils.is_stager_x86(uri), uri
        n += 1
    # regex model vs re: every string of length <= 6 over {'/', 'a', 'Z', '0', '\n', '-'} for the pattern in the source
    import inspect
    src = inspect.getsource(utils.is_stager_x64)
    pats = re.findall(r're\.\w+\(\s*r?"([^"]+)"', src)
    cnt = 0
    for pat in pats:
        for L in range(0, 7):
            for tup in itertools.product("/aZ0\n-", repeat=L):
                s = "".join(tup)
                for fn in ("match", "fullmatch"):
                    exp = bool(getattr(re, fn)(pat, s))
                    # run the model on a SymStr with concrete cells (forces the model path, not the native fallback)
                    got = models_re._run(pat, SymStr([ord(c) for c in s]), 0, True, fn == "fullmatch") is not None
                    assert got == exp, (pat, s, fn)
                    cnt += 1
    return dict(validated=n + cnt, concrete_vectors=n, regex_strings_checked=cnt, regex_patterns=pats)
