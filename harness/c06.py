"""C06 — beacon metadata survives RSA transport; session keys derive from it (DESIGN.md §4 C06)"""
import hashlib as _hashlib

from harness.common import *  # noqa: F401,F403
from symx import models_crypto as MC
from dissect.cobaltstrike import c2
from dissect.cobaltstrike.c_c2 import BeaconMetadata

MC.install()
MC.install_rsa()

INFO = dict(
    files=["dissect/cobaltstrike/c2.py", "dissect/cobaltstrike/c_c2.py"],
    bounds=dict(
        quick="round trip: every header field symbolic at full width (u32/u16/u8, 16 symbolic aes_rand bytes), arbitrary initial size "
        "field, info of L in {0,1,2,57,58} (1024-bit key) and {185,186} (2048-bit) symbolic bytes; L = limit+1 must raise ValueError; "
        "undecryptable blobs: the RSA stub returns the sentinel or an arbitrary byte string of length {0,1,7,8,58,59,60,117} with "
        "symbolic content (magic symbolic); key derivation for symbolic 16-byte random",
        thorough="info length every L in 0..59 (1024) and 180..187 (2048); garbage lengths every 0..117",
    ),
    outside="RSA / PKCS#1 v1.5 itself (contract stub; real pycryptodome is used in the native replays); SHA-256 (uninterpreted)",
    stubs=["PKCS1_v1_5.new(key).encrypt/decrypt -> contract stub (see symx/models_crypto.py)", "hashlib.sha256 -> uninterpreted function",
           "cstruct BeaconMetadata reader/dumper -> generated source interpreted / field concatenation"],
    assumptions=["z3 decides QF_BV+UF soundly"],
)

FIELDS = [("ansi_cp", 16), ("oem_cp", 16), ("bid", 32), ("pid", 32), ("port", 16), ("flag", 8), ("ver_major", 8), ("ver_minor", 8),
          ("ver_build", 16), ("ptr_x64", 32), ("ptr_gmh", 32), ("ptr_gpa", 32), ("ip", 32)]

_KEYS = {}


def real_keys(bits):
    if bits not in _KEYS:
        from Crypto.PublicKey import RSA

        k = RSA.generate(bits)
        _KEYS[bits] = (k, k.publickey())
    return _KEYS[bits]


def keys(kbytes):
    if is_native():
        return real_keys(kbytes * 8)
    k = MC.FakeRSAKey(kbytes)
    return k, k.public_key()


def h_roundtrip(kbytes, L):
    limit = kbytes - 11 - 59

    def body(ctx):
        if not is_native():
            MC.new_env()
        priv, pub = keys(kbytes)
        vals = dict(magic=0xBEEF, size=sym_int("size0", 0, 0xFFFFFFFF), aes_rand=sym_bytes("aes_rand", 16), info=sym_bytes("info", L))
        for name, bits in FIELDS:
            vals[name] = sym_int(name, 0, (1 << bits) - 1)
        md = call(BeaconMetadata, **{k: (V.to_native(v) if is_native() else v) for k, v in vals.items()})
        kind, blob = outcome(c2.encrypt_metadata, md, pub)
        if L > limit:
            ctx.prove(kind == "exc" and isinstance(blob, ValueError), "metadata that does not fit the RSA modulus is refused with ValueError")
            return
        ctx.prove(kind == "ok", "metadata that fits the modulus encrypts (got %r)" % (blob,))
        if kind != "ok":
            return
        ctx.prove(len(as_bytes(blob).cells) == kbytes, "ciphertext has the size of the modulus")
        kind, back = outcome(c2.decrypt_metadata, blob, priv)
        ctx.prove(kind == "ok", "encrypted metadata decrypts with the matching key (got %r)" % (back,))
        if kind != "ok":
            return
        ctx.prove(deep_eq(back.magic, 0xBEEF), "magic preserved")
        ctx.prove(deep_eq(back.size, 51 + L), "size field made consistent (== len - 8)")
        ctx.prove(deep_eq(as_bytes(back.aes_rand), vals["aes_rand"]), "aes_rand preserved")
        ctx.prove(deep_eq(as_bytes(back.info), vals["info"]), "info preserved")
        for name, _ in FIELDS:
            ctx.prove(deep_eq(getattr(back, name) if is_native() else I.getattr(back, name), vals[name]), "field %s preserved" % name)
    return body


def h_garbage(kbytes, mode):
    """mode: 'sentinel' or an int = length of the arbitrary plaintext the RSA primitive returns for a foreign blob"""
    def body(ctx):
        priv, pub = keys(kbytes)
        blob = sym_bytes("blob", kbytes)
        if isinstance(mode, int):
            # the plaintext the RSA layer hands back is an input of the instance: the symbolic run injects it through the stub, the
            # native replay really encrypts it with the matching public key (so the counterexample replays on the real primitive)
            gpt = sym_bytes("garbage_pt", mode)
            if mode >= 4:
                m = m_int_from_bytes(SymBytes(gpt.cells[:4]), "big")
                if is_native():
                    if m == 0xBEEF:
                        raise PathAbort()
                else:
                    ctx.assume(compare("!=", m, 0xBEEF))
            if is_native():
                from Crypto.Cipher import PKCS1_v1_5
                blob = SymBytes(list(PKCS1_v1_5.new(pub).encrypt(V.to_native(gpt))))
        if not is_native():
            env = MC.new_env()
            if mode == "sentinel":
                env.rsa_other = lambda ct, sentinel: sentinel
            elif mode == "valueerror":
                def other(ct, sentinel):
                    raise ValueError("Ciphertext too large")
                env.rsa_other = other
            else:
                def other(ct, sentinel):
                    return gpt  # anything but a well-formed metadata record: the magic is not 0xBEEF (assumed above)
                env.rsa_other = other
        kind, r = outcome(c2.decrypt_metadata, V.unwrap(blob) if not is_native() else V.to_native(blob), priv)
        ctx.prove(kind == "exc" and isinstance(r, ValueError),
                  "a blob that does not decrypt to 0xBEEF metadata is rejected with ValueError (got %s %s)" % (kind, type(r).__name__))
    return body


def h_garbage_beef(kbytes, n):
    """the RSA primitive returns n arbitrary bytes that happen to start with the 0xBEEF magic: the result is either a
    metadata record consistent with those bytes or ValueError — never another exception"""
    def body(ctx):
        priv, pub = keys(kbytes)
        blob = sym_bytes("blob", kbytes)
        holder = {}
        if not is_native():
            env = MC.new_env()

            def other(ct, sentinel):
                pt = sym_bytes("garbage_pt", n)
                holder["pt"] = SymBytes([0, 0, 0xBE, 0xEF] + pt.cells[4:])
                return holder["pt"]
            env.rsa_other = other
        kind, r = outcome(c2.decrypt_metadata, blob, priv)
        if kind == "exc":
            ctx.prove(isinstance(r, ValueError), "only ValueError may escape (got %s)" % type(r).__name__)
        elif "pt" in holder:
            pt = holder["pt"]
            size = m_int_from_bytes(SymBytes(pt.cells[4:8]), "big")
            L = len(as_bytes(r.info).cells)
            ctx.prove(deep_eq(as_bytes(r.info), SymBytes(pt.cells[59:59 + L])), "accepted record reports the bytes it was given")
            ctx.prove(compare("==", binop("+", L, 51), size) if L else compare("<=", size, 51), "accepted record is consistent with its size field")
        else:
            ctx.prove(True, "native run: real RSA result")
    return body


def h_badmagic(kbytes, L):
    """a blob that does decrypt (produced by encrypt) but carries another magic"""
    def body(ctx):
        if not is_native():
            MC.new_env()
        priv, pub = keys(kbytes)
        magic = sym_int("magic", 0, 0xFFFFFFFF)
        ctx.assume(compare("!=", magic, 0xBEEF))
        md = call(BeaconMetadata, magic=magic, aes_rand=V.unwrap(SymBytes([1] * 16)), info=V.to_native(sym_bytes("info", L)) if is_native() else sym_bytes("info", L))
        blob = call(c2.encrypt_metadata, md, pub)
        kind, r = outcome(c2.decrypt_metadata, blob, priv)
        ctx.prove(kind == "exc" and isinstance(r, ValueError), "metadata without the 0xBEEF magic is rejected with ValueError")
    return body


def h_wrongsize(kbytes):
    def body(ctx):
        priv, pub = keys(kbytes)
        for n in (0, 1, kbytes - 1, kbytes + 1):
            kind, r = outcome(c2.decrypt_metadata, V.unwrap(SymBytes([7] * n)), priv)
            ctx.prove(kind == "exc" and isinstance(r, ValueError), "a blob of %d bytes (modulus %d) is rejected with ValueError" % (n, kbytes))
    return body


def h_derive():
    def body(ctx):
        env = MC.new_env() if not is_native() else None
        r = sym_bytes("aes_rand", 16)
        a, h = call(c2.derive_aes_hmac_keys, r)
        if is_native():
            d = _hashlib.sha256(V.to_native(r)).digest()
            ea, eh = d[:16], d[16:]
        else:
            d = env.sha.apply([r], 32)
            ea, eh = SymBytes(d.cells[:16]), SymBytes(d.cells[16:])
        ctx.prove(deep_eq(as_bytes(a), as_bytes(ea)), "AES key == first half of SHA-256(aes_rand)")
        ctx.prove(deep_eq(as_bytes(h), as_bytes(eh)), "HMAC key == second half of SHA-256(aes_rand)")
        bk = call(c2.BeaconKeys.from_aes_rand, r)
        ctx.prove(deep_eq(as_bytes(bk.aes_key), as_bytes(ea)) and True, "BeaconKeys.from_aes_rand aes_key")
        ctx.prove(deep_eq(as_bytes(bk.hmac_key), as_bytes(eh)), "BeaconKeys.from_aes_rand hmac_key")
        ctx.prove(bk.iv == b"abcdefghijklmnop", "default IV")
        md = call(BeaconMetadata, magic=0xBEEF, aes_rand=V.to_native(r) if is_native() else r)
        bk2 = call(c2.BeaconKeys.from_beacon_metadata, md)
        ctx.prove(deep_eq(as_bytes(bk2.aes_key), as_bytes(ea)), "BeaconKeys.from_beacon_metadata aes_key")
        ctx.prove(deep_eq(as_bytes(bk2.hmac_key), as_bytes(eh)), "BeaconKeys.from_beacon_metadata hmac_key")
    return body


def instances(tier):
    q = tier == "quick"
    out = []
    for kb, Ls in ((128, (0, 1, 2, 57, 58, 59) if q else tuple(range(0, 61))), (256, (185, 186, 187) if q else tuple(range(180, 189)))):
        for L in Ls:
            out.append(Instance("roundtrip k=%d L=%d" % (kb, L), h_roundtrip(kb, L), dict(kind="roundtrip", modulus_bytes=kb, info_len=L)))
    for mode in (("sentinel", "valueerror", 0, 1, 7, 8, 58, 59, 60, 117) if q else ("sentinel", "valueerror") + tuple(range(0, 118))):
        out.append(Instance("garbage blob -> %s" % (mode,), h_garbage(128, mode), dict(kind="garbage", rsa_returns=mode)))
    for n in ((59, 60, 64) if q else (59, 60, 61, 64, 80, 117)):
        out.append(Instance("garbage with 0xBEEF magic n=%d" % n, h_garbage_beef(128, n), dict(kind="garbage_beef", rsa_returns=n), split=6))
    for L in (0, 5):
        out.append(Instance("bad magic L=%d" % L, h_badmagic(128, L), dict(kind="badmagic", info_len=L)))
    out.append(Instance("wrong blob size", h_wrongsize(128), dict(kind="wrongsize")))
    out.append(Instance("key derivation", h_derive(), dict(kind="derive")))
    return out


def prechecks(tier, seed):
    """the RSA stub's contract against pycryptodome; BeaconMetadata dump/parse model vs cstruct"""
    import random
    from Crypto.Cipher import PKCS1_v1_5

    rnd = random.Random(seed)
    V.Ctx.cur = V.Ctx()
    MC.new_env()
    priv, pub = real_keys(1024)
    n = 0
    c = PKCS1_v1_5.new(pub)
    assert len(c.encrypt(b"x" * 117)) == 128
    try:
        c.encrypt(b"x" * 118)
        raise AssertionError("pycryptodome accepted an over-long plaintext")
    except ValueError:
        n += 1
    d = PKCS1_v1_5.new(priv)
    sentinel = object()
    for _ in range(20):
        try:
            r = d.decrypt(rnd.randbytes(128), sentinel)
        except ValueError:
            n += 1  # ciphertext integer >= modulus
            continue
        assert r is sentinel or (isinstance(r, bytes) and len(r) <= 117), "foreign blob: sentinel or short byte string"
        n += 1
    try:
        d.decrypt(b"\x01" * 127, sentinel)
        raise AssertionError("pycryptodome accepted a short ciphertext")
    except ValueError:
        n += 1
    for _ in range(20):
        info = rnd.randbytes(rnd.randrange(0, 40))
        md = BeaconMetadata(magic=0xBEEF, size=rnd.randrange(1 << 32), aes_rand=rnd.randbytes(16), bid=rnd.randrange(1 << 32),
                            port=rnd.randrange(1 << 16), flag=rnd.randrange(256), info=info)
        a = md.dumps()
        ms = call(BeaconMetadata, magic=0xBEEF, size=md.size, aes_rand=SymBytes([z3.BitVecVal(x, 8) for x in md.aes_rand]), bid=md.bid,
                  port=md.port, flag=md.flag, info=SymBytes([z3.BitVecVal(x, 8) for x in info]))
        b = bytes(z3.simplify(bv(x)).as_long() for x in seq_cells(ms.dumps(), SymBytes))
        assert a == b, "BeaconMetadata dumps model differs from cstruct"
        n += 1
    return dict(validated=n)
