"""C14 — a parsed beacon configuration is an immutable value (DESIGN.md §4 C14)"""
import itertools
import zlib

import lark

from harness.common import *  # noqa: F401,F403
from harness import cfgbuild as CB
from symx import models_crypto as MC
from symx import models_lark  # noqa: F401
from dissect.cobaltstrike import beacon, c2, c2profile, client
from dissect.cobaltstrike.beacon import BeaconConfig

MC.install()

INFO = dict(
    files=["dissect/cobaltstrike/beacon.py", "dissect/cobaltstrike/c2.py", "dissect/cobaltstrike/client.py", "dissect/cobaltstrike/c2profile.py"],
    bounds=dict(
        quick="one HTTPS configuration family (http-get: static header + metadata/base64/prepend/header, http-post: id parameter + "
        "output print, server output: print/base64/prepend 3) whose prepend argument (2 bytes), User-Agent tail (2 bytes) and recover "
        "prepend/append shape are symbolic or enumerated; every ordered pair of operations from {4 view accesses, C2Http with AES+HMAC "
        "keys, with AES random, with the RSA private key, profile generation, client dry run, get / post / response "
        "transform+recover}: after each operation the deep snapshot of all views, settings_tuple and config_block is unchanged and the "
        "second operation's observable result equals its result on a fresh configuration",
        thorough="all ordered triples; three program families",
    ),
    outside="histories longer than the bound (each operation is shown to preserve the whole observable state and to be a function of "
    "it, from which longer histories follow by induction — stated, not machine-checked); configurations other than the families listed",
    stubs=["SHA-256 / AES / HMAC -> uninterpreted functions", "RSA.import_key -> real (concrete DER key)", "random -> nondeterministic",
           "logging -> no-op", "lark.Tree/Token construction -> real objects / symbolic-text tokens"],
    assumptions=["z3 decides QF_BV soundly"],
)


def freeze(v, depth=0):
    """deep, structure-preserving copy with fresh containers (leaves shared: they are immutable values)"""
    if isinstance(v, (list, tuple)) and not hasattr(v, "_fields"):
        return tuple(freeze(x, depth + 1) for x in v)
    if hasattr(v, "_fields"):
        return (type(v).__name__,) + tuple(freeze(x, depth + 1) for x in v)
    if hasattr(v, "items") and not isinstance(v, (str, bytes)):
        return tuple((freeze(k, depth + 1), freeze(x, depth + 1)) for k, x in v.items())
    if isinstance(v, lark.Tree):
        return ("Tree", str(v.data), tuple(freeze(c, depth + 1) for c in v.children))
    if isinstance(v, models_lark.SymToken):
        return ("Token", v.type, v.value)
    if isinstance(v, lark.Token):
        return ("Token", v.type, str(v))
    if isinstance(v, bytearray):
        return bytes(v)
    return v


def snapshot(cfg):
    views = []
    for name in ("settings", "settings_by_index", "raw_settings", "raw_settings_by_index"):
        views.append(freeze(I.getattr(cfg, name)))
    st = tuple((freeze(s.index.value), freeze(s.type.value if hasattr(s.type, "value") else s.type), freeze(s.length), freeze(s.value))
               for s in cfg.settings_tuple)
    return (tuple(views), st, freeze(cfg.config_block), cfg.xorkey, cfg.xorencoded, cfg.pe_export_stamp, cfg.pe_compile_stamp,
            cfg.architecture, cfg.guardrails)


def transform_summary(t):
    return (freeze(t.tsteps), freeze(t.rsteps))


def c2http_summary(h):
    return (transform_summary(h.transform_get), transform_summary(h.transform_submit), transform_summary(h.transform_response),
            freeze(h.get_uris), h.submit_uri, h.get_verb, h.submit_verb, freeze(h.aes_key), freeze(h.hmac_key))


THOROUGH = False
KEY = bytes(range(16))
HKEY = bytes(range(16, 32))


def op_view(name):
    def run(cfg):
        return freeze(I.getattr(cfg, name))
    return run


def op_c2http(kind):
    def run(cfg):
        if kind == "aes":
            h = call(c2.C2Http, cfg, aes_key=KEY, hmac_key=HKEY)
        elif kind == "rand":
            h = call(c2.C2Http, cfg, aes_rand=KEY)
        else:
            priv, _ = CB.rsa_keypair()
            h = call(c2.C2Http, cfg, rsa_private_key=priv)
        s = c2http_summary(h)
        if kind == "rand":
            s = s[:-2]  # derived keys are SHA-256 outputs (uninterpreted / real): compared in C06, not here
        return s
    return run


def op_profile(cfg):
    p = call(c2profile.C2Profile.from_beacon_config, cfg)
    return freeze(p.tree)


def op_client(cfg):
    cl = call(client.HttpBeaconClient)
    call(I.getattr(cl, "run"), cfg, dry_run=True, beacon_id=4242, pid=1234, computer="PC", user="bob", process="a.exe",
         internal_ip="10.1.2.3", arch="x64", domain="c2.example.org")
    return (cl.beacon_id, cl.get_uri, cl.submit_uri, cl.get_verb, cl.submit_verb, freeze(cl.user_agent), cl.sleeptime, cl.jitter,
            c2http_summary(cl.c2http)[:-2])


def op_client_options(cfg):
    """the client set up with every optional override the API offers (explicit Host header, verbs/URIs left to the configuration)"""
    cl = call(client.HttpBeaconClient)
    call(I.getattr(cl, "run"), cfg, dry_run=True, beacon_id=4242, pid=1234, computer="PC", user="bob", process="a.exe",
         internal_ip="10.1.2.3", arch="x64", domain="c2.example.org", host_header="Host: front.example.org", sleeptime=5000, jitter=10,
         user_agent="curl/8")
    return (cl.beacon_id, cl.get_uri, cl.submit_uri, cl.get_verb, cl.submit_verb, freeze(cl.user_agent), cl.sleeptime, cl.jitter,
            freeze(cl.host_header), c2http_summary(cl.c2http)[:-2])


def op_get_roundtrip(cfg):
    h = call(c2.C2Http, cfg, aes_key=KEY, hmac_key=HKEY)
    req = call(I.getattr(h.transform_get, "transform"), c2.C2Data(metadata=b"\x01\x02\x03meta"))
    back = call(I.getattr(h.transform_get, "recover"), req)
    return (freeze(req), freeze(back), c2http_summary(h))  # (no mask step in the get program: deterministic)


def op_post_roundtrip(cfg):
    h = call(c2.C2Http, cfg, aes_key=KEY, hmac_key=HKEY)
    req = call(I.getattr(h.transform_submit, "transform"), c2.ClientC2Data(id=b"4242", output=b"\x00\x00\x00\x04data"))
    back = call(I.getattr(h.transform_submit, "recover"), req)
    return (freeze(req), freeze(back), c2http_summary(h))


def op_response_roundtrip(cfg):
    h = call(c2.C2Http, cfg, aes_key=KEY, hmac_key=HKEY)
    req = call(I.getattr(h.transform_response, "transform"), c2.C2Data(output=b"task-data-0123"))
    resp = c2.HttpResponse(status=200, headers=req.headers, reason=b"OK", body=req.body)
    back = call(I.getattr(h.transform_response, "recover"), resp)
    # the wire form may contain a fresh random mask: only its length, the recovered data and the decoder are observables
    return (len(as_bytes(req.body).cells), freeze(back), c2http_summary(h))


OPS = {
    "settings": op_view("settings"), "settings_by_index": op_view("settings_by_index"), "raw_settings": op_view("raw_settings"),
    "raw_settings_by_index": op_view("raw_settings_by_index"),
    "C2Http(aes+hmac)": op_c2http("aes"), "C2Http(aes_rand)": op_c2http("rand"), "C2Http(rsa)": op_c2http("rsa"),
    "profile": op_profile, "client dry run": op_client, "get transform/recover": op_get_roundtrip, "post transform/recover": op_post_roundtrip,
    "response transform/recover": op_response_roundtrip,
}
# (not part of the all-pairs enumeration: used on the host-header family 5 only)
EXTRA_OPS = {"client dry run with overrides": op_client_options}
ALLOPS = dict(OPS, **EXTRA_OPS)


def make_block(ctx, family):
    arg = sym_bytes("prepend_arg", 2)
    ua = sym_bytes("ua_tail", 2) if family not in (4, 5, 6) else SymBytes(list(b"ok"))
    for c in ua.cells:
        if isinstance(c, int):
            if not 0x20 <= c <= 0x7E:
                raise PathAbort()
        else:
            ctx.assume(mkbool(z3.And(z3.UGE(c, 0x20), z3.ULE(c, 0x7E))))
    get = [("_HEADER", b"Accept: */*"), ("BUILD", "metadata"), ("BASE64", True), ("PREPEND", arg), ("HEADER", b"Cookie")]
    post = [("_HEADER", b"Content-Type: application/octet-stream"), ("BUILD", "id"), ("PARAMETER", b"id"), ("BUILD", "output"), ("PRINT", True)]
    if family == 5:
        # static Host headers in both client programs (a domain-fronting profile)
        get.insert(1, ("_HOSTHEADER", b"Host: cdn.example.net"))
        post.insert(0, ("_HOSTHEADER", b"Host: cdn.example.net"))
    recover = {6: [("print", True)], 5: [("print", True), ("mask", True)], 0: [("print", True), ("base64", True), ("prepend", 3)],
               1: [("print", True), ("append", 0), ("mask", True)],
               2: [("print", True)], 3: [("print", True)], 4: [("print", True)]}[family]
    # BeaconGate vector: Core and Cleanup complete, Comms off -> the pretty value is the (not alphabetically ordered) list ['Core', 'Cleanup']
    gate_fields = [f.name for f in beacon.BeaconGateOptions.__fields__]
    gate = [0 if n in ("InternetOpenA", "InternetConnectA") else 1 for n in gate_fields]
    cells = CB.http_config(get=get, post=post, recover=recover, ua=SymBytes(list(b"Mozilla/5.0 ") + ua.cells), extra=((78, CB.PTR, gate),) if family == 4 else
                           # process-inject execute list CreateThread, NtQueueApcThread-s, RtlCreateUserThread (+ padding)
                           ((51, CB.PTR, [1, 8, 4, 0] + [0] * 12),) if family == 6 else ())
    if family == 3:
        # a block in which setting indices occur twice (the library accepts it; the later record wins): one duplicate pair early in
        # the block, one at its end
        early = CB.rec(5, CB.SHORT, CB.u16be(33)) + CB.rec(10, CB.PTR, list(b"/first.php") + [0] * 54)
        late = CB.rec(2, CB.SHORT, CB.u16be(8443))
        cells = cells[:8] + early + cells[8:-2] + late + [0, 0]
    return cells


def h_history(names, family):
    def body(ctx):
        if not is_native():
            MC.new_env()  # one table of uninterpreted-function applications per path
        cells = make_block(ctx, family)
        block = V.unwrap(SymBytes(cells))
        # reference results: every operation of the history on its OWN freshly parsed configuration, taken BEFORE the history runs
        # (a result that depends on what was done before — through the configuration object or through any state shared between
        # decoders / transforms — then differs from its reference)
        refs = [None] * len(names)
        for k in reversed(range(len(names))):  # (last operation first: its reference is taken in a state no earlier operation has touched)
            refs[k] = ALLOPS[names[k]](call(BeaconConfig, block))
        cfg = call(BeaconConfig, block)
        s0 = snapshot(cfg)
        for k, name in enumerate(names):
            res = ALLOPS[name](cfg)
            s1 = snapshot(cfg)
            ctx.prove(deep_eq(s0, s1), "configuration unchanged after %s (history %s)" % (name, " ; ".join(names[:k + 1])))
            ctx.prove(deep_eq(res, refs[k]), "%s gives the same result as on a fresh configuration (history %s)" % (name, " ; ".join(names[:k + 1])))
            if THOROUGH:
                fresh = call(BeaconConfig, block)
                ref = ALLOPS[name](fresh)
                ctx.prove(deep_eq(ref, refs[k]), "%s on a fresh configuration gives the same result before and after the history (%s)" % (name, " ; ".join(names[:k + 1])))
    return body


def h_mutation():
    def body(ctx):
        if not is_native():
            MC.new_env()
        cfg = call(BeaconConfig, V.unwrap(SymBytes(make_block(ctx, 0))))
        for view in ("settings", "settings_by_index", "raw_settings", "raw_settings_by_index"):
            m = I.getattr(cfg, view)
            for attempt in ("set", "del"):
                try:
                    if attempt == "set":
                        m["SETTING_PORT" if "index" not in view else 2] = 1
                    else:
                        del m["SETTING_PORT" if "index" not in view else 2]
                    ok = False
                except TypeError:
                    ok = True
                ctx.prove(ok, "%s rejects item %s with TypeError" % (view, attempt))
    return body


def instances(tier):
    global THOROUGH
    q = tier == "quick"
    THOROUGH = not q
    out = []
    names = list(OPS)
    for n in names:
        out.append(Instance("single %s" % n, h_history((n,), 0), dict(kind="history", ops=[n], family=0)))
    for a, b in itertools.product(names, repeat=2):
        fam = (zlib.crc32((a + ";" + b).encode()) % 3) if q else 0  # (deterministic: str hashes are salted per process)
        if q and a in ("client dry run", "profile") and b in ("client dry run", "profile"):
            fam = 4  # two path-heavy operations: the family with a concrete User-Agent (their forks multiply otherwise)
        out.append(Instance("pair %s ; %s" % (a, b), h_history((a, b), fam), dict(kind="history", ops=[a, b], family=fam)))
    dup_ops = ["settings", "settings_by_index", "raw_settings", "raw_settings_by_index", "C2Http(aes+hmac)", "profile"]
    for a, b in itertools.product(dup_ops if q else names, repeat=2):
        out.append(Instance("pair %s ; %s duplicate-index block" % (a, b), h_history((a, b), 3), dict(kind="history", ops=[a, b], family=3)))
    gate_ops = ["settings", "settings_by_index", "profile", "C2Http(aes+hmac)"]
    for a, b in itertools.product(gate_ops, repeat=2):
        if "profile" in (a, b):
            out.append(Instance("pair %s ; %s BeaconGate block" % (a, b), h_history((a, b), 4), dict(kind="history", ops=[a, b], family=4)))
    if not q:
        for fam in (1, 2):
            for a, b in itertools.product(names, repeat=2):
                if a in ("client dry run", "profile") and b in ("client dry run", "profile"):
                    continue  # (covered on families 0 and 4)
                out.append(Instance("pair %s ; %s family=%d" % (a, b, fam), h_history((a, b), fam), dict(kind="history", ops=[a, b], family=fam)))
        heavy = ["C2Http(aes+hmac)", "C2Http(rsa)", "profile", "client dry run", "response transform/recover", "settings"]
        for t in itertools.product(heavy, repeat=3):
            # (family 4: concrete User-Agent — the forks of three path-heavy operations would multiply to ~10^5 paths otherwise)
            out.append(Instance("triple %s" % " ; ".join(t), h_history(t, 4), dict(kind="history", ops=list(t), family=4)))
    # host-header family: static Host headers in the programs, a client run with explicit overrides before/after the observers
    x = "client dry run with overrides"
    for o in ("settings", "C2Http(aes+hmac)", "get transform/recover", "post transform/recover", "client dry run", x) + (() if q else ("profile",)):
        for hist in ((x, o), (o, x)) if o != x else ((x, x),):
            out.append(Instance("pair %s ; %s host-header block" % hist, h_history(hist, 5), dict(kind="history", ops=list(hist), family=5)))
    # process-inject family: an execute list whose entries the profile generator re-spells
    for hist in (("profile", "settings"), ("profile", "settings_by_index"), ("profile", "profile"), ("settings_by_index", "profile")):
        out.append(Instance("pair %s ; %s execute-list block" % hist, h_history(hist, 6), dict(kind="history", ops=list(hist), family=6)))
    out.append(Instance("mappings reject mutation", h_mutation(), dict(kind="mutation")))
    for i in out:
        i.native_patches = [(c2, "random", models_lib.RandomShim)]
        ops = i.params.get("ops", [])
        if sum(o in ("client dry run", "profile") for o in ops) >= 2:
            i.split = 10  # the forks of the two heavy operations multiply: hand sub-trees back to the scheduler
            i.params["cost"] = 50
    return out


def prechecks(tier, seed):
    """config builder vs the real parser: the block decodes natively to the intended programs; interpreter vs CPython"""
    V.Ctx.cur = V.Ctx()
    MC.new_env()
    blk = bytes(CB.http_config())
    real = BeaconConfig(blk)
    assert real.settings["SETTING_C2_REQUEST"] == [("_HEADER", b"Accept: */*"), ("BUILD", "metadata"), ("BASE64", True),
                                                   ("PREPEND", b"SESSIONID="), ("HEADER", b"Cookie")]
    assert real.protocol == "https" and real.uris == ["/load"] and real.settings["SETTING_SUBMITURI"] == "/submit.php"
    mine = call(BeaconConfig, blk)
    a = freeze(real.settings)  # (taken before any C2Http is built: the instances below decide whether that matters)
    b = freeze(I.getattr(mine, "settings"))
    ra = [x for x in a if x[0] != "SETTING_PUBKEY"]
    rb = [x for x in b if x[0] != "SETTING_PUBKEY"]
    assert deep_eq(tuple(ra), tuple(rb)) is True, "interpreter and CPython disagree on the settings of the generated block"
    c2.C2Http(BeaconConfig(blk), aes_key=KEY, hmac_key=HKEY)
    return dict(validated=3)
