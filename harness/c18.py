"""C18 — PE artifacts and the deduced Cobalt Strike version (DESIGN.md §4 C18)"""
import datetime
import itertools
import re as _re

from harness.common import *  # noqa: F401,F403
from harness import cfgbuild as CB
from dissect.cobaltstrike import pe, version, beacon
from dissect.cobaltstrike.beacon import BeaconConfig
from dissect.cobaltstrike.version import BeaconVersion

INFO = dict(
    files=["dissect/cobaltstrike/pe.py", "dissect/cobaltstrike/version.py", "dissect/cobaltstrike/beacon.py"],
    bounds=dict(
        quick="images built by the harness: x86 and x64, e_lfanew in {64, 72, 200}, prepend of 0..3 symbolic bytes, magic_mz of 2..4 "
        "symbolic bytes followed by the bootstrap stub, 4 symbolic PE signature bytes, symbolic 32-bit compile and export stamps, 0..2 "
        "sections with symbolic VirtualAddress / VirtualSize (<= 24) and a symbolic export RVA (so that 'which section contains the "
        "export directory, at which delta' is decided by the solver, incl. RVA == section start, RVA == section end, no section), "
        "append of 0..3 symbolic bytes; version: fully symbolic 32-bit export stamp and 16-bit maximum setting index, present/absent",
        thorough="e_lfanew in {64, 65, 72, 128, 200, 1000}; prepend 0..5; VirtualSize <= 40; three sections",
    ),
    outside="images whose header fields are inconsistent with the file (truncated / corrupted images are C08's subject); prepends longer "
    "than the bound (the scan range is 1024); decoy DOS headers inside the prepend are excluded by the oracle being the definition "
    "(smallest valid offset) — the harness proves the image offset is that smallest offset; BeaconVersion on arbitrary strings "
    "(strptime); version strings are parsed by an independent regex + month table in the harness",
    stubs=["io.BytesIO -> model", "cstruct readers -> generated source interpreted", "re / datetime.strptime -> native on concrete strings"],
    assumptions=["z3 decides QF_BV soundly"],
)

STUB = {"x86": pe.DOSHEADER_X86, "x64": pe.DOSHEADER_X64}
MACHINE = {"x86": 0x14C, "x64": 0x8664}
OPT = {"x86": 224, "x64": 240}
DD_OFF = {"x86": 96, "x64": 112}
RAW = 80  # raw bytes per section


def le(v, n):
    """little-endian cells of an int or SymInt"""
    if isinstance(v, int):
        return list(v.to_bytes(n, "little"))
    return list(as_bytes(m_int_to_bytes(v, n, "little")).cells)


def build_image(arch, e_lfanew, nsec, magic, sig, cstamp, secs, export_rva, export_fields, hdr_pad=8):
    """returns (cells, layout): a well-formed image. secs: [(VA, VS)] (ints or SymInts); export_fields: per section the 40 bytes
    of candidate export directories are placed by the caller through `fill`"""
    dos = list(magic) + list(STUB[arch])
    dos += [0] * (60 - len(dos)) + le(e_lfanew, 4)
    img = dos + [0] * (e_lfanew - 64)
    img += list(sig)
    fh = le(MACHINE[arch], 2) + le(nsec, 2) + list(cstamp) + [0] * 8 + le(OPT[arch], 2) + le(0x2102, 2)
    img += fh
    hdr_end = e_lfanew + 24 + OPT[arch] + 40 * nsec
    size_of_headers = hdr_end + hdr_pad
    opt = [0] * OPT[arch]
    opt[0:2] = le(0x10B if arch == "x86" else 0x20B, 2)
    opt[60:64] = le(size_of_headers, 4)
    opt[DD_OFF[arch] - 4:DD_OFF[arch]] = le(16, 4)
    opt[DD_OFF[arch]:DD_OFF[arch] + 4] = le(export_rva, 4)
    opt[DD_OFF[arch] + 4:DD_OFF[arch] + 8] = le(40, 4)
    img += opt
    ptrs = []
    for i, (va, vs) in enumerate(secs):
        ptr = size_of_headers + RAW * i
        ptrs.append(ptr)
        img += list(b".sec%d\0\0\0" % i) + le(vs, 4) + le(va, 4) + le(RAW, 4) + le(ptr, 4) + [0] * 12 + le(0x40000040, 4)
    img += [0] * hdr_pad
    assert len(img) == size_of_headers
    for i in range(nsec):
        img += list(export_fields[i])
    return img, dict(size_of_headers=size_of_headers, ptrs=ptrs, total=size_of_headers + RAW * nsec)


def h_artifacts(arch, e_lfanew, nsec, p, k, a, vs_max, pad=0):
    """pad: concrete 0x90 filler in front of the p symbolic prepend bytes (long prepends within the 1024-byte search range)"""
    def body(ctx):
        prepend = SymBytes([0x90] * pad + sym_bytes("prepend", p).cells)
        p_total = pad + p
        magic = sym_bytes("magic_mz", k)
        sig = sym_bytes("magic_pe", 4)
        cstamp = sym_bytes("compile_stamp", 4)
        append = sym_bytes("append", a)
        if a:
            last = append.cells[-1]
            if isinstance(last, int):
                if last == 0:
                    raise PathAbort()
            else:
                ctx.assume(mkbool(last != 0))
        rva = sym_int("export_rva", 0, 0xFFFFFFFF)
        secs = []
        raws = []
        for i in range(nsec):
            va = sym_int("va%d" % i, 0, 0xFFFF0000)
            vs = sym_int("vs%d" % i, 0, vs_max)
            secs.append((va, vs))
            raws.append(sym_bytes("raw%d" % i, RAW))
        img, lay = build_image(arch, e_lfanew, nsec, magic.cells, sig.cells, cstamp.cells, secs, rva, [r.cells for r in raws])
        data = V.unwrap(SymBytes(list(prepend.cells) + img + list(append.cells)))
        mk = lambda: (io_model(data))  # noqa: E731

        # the image starts at the smallest offset whose DOS/file header satisfy the constraint (validity of the scenario: the prepend
        # bytes do not form an earlier valid header) — established with the library's own scanner being compared to the definition
        mz = call(pe.find_mz_offset, mk())
        want_mz = definition_mz(ctx, data)
        ctx.prove(deep_eq(mz, want_mz), "find_mz_offset == smallest offset with 0 < e_lfanew < 1024 and Machine in {x86, x64} (got %r want %r)" % (mz, want_mz))
        if want_mz != p_total:
            raise PathAbort()  # a decoy header formed by the prepend bytes: outside the scenario 'image at offset p'
        ctx.prove(call(pe.find_architecture, mk()) == arch, "architecture == Machine of the image")
        cs, es = call(pe.find_compile_stamps, mk())
        ctx.prove(deep_eq(cs, m_int_from_bytes(cstamp, "little")), "compile stamp == IMAGE_FILE_HEADER.TimeDateStamp")
        # export stamp: first section (header order) with VA <= rva < VA+VS
        want_es = None
        for i, (va, vs) in enumerate(secs):
            inside = truth(compare("<=", va, rva)) and truth(compare("<", rva, binop("+", va, vs)))
            if inside:
                delta = concretize(binop("-", rva, va)) if not is_native() else rva - va
                off = delta + RAW * i  # into the concatenated raw data
                allraw = [c for r in raws for c in r.cells] + list(append.cells)
                if off + 40 > len(allraw):
                    raise PathAbort()  # export directory would run past the end of the file: not a well-formed image
                want_es = m_int_from_bytes(SymBytes(allraw[off + 4:off + 8]), "little")
                break
        ctx.prove(deep_eq(es, want_es), "export stamp == TimeDateStamp of the export directory of the first section containing the RVA (None without one): got %r want %r" % (es, want_es))
        mm = call(pe.find_magic_mz, mk())
        ctx.prove(mm is not None and deep_eq(as_bytes(mm), magic), "magic_mz == bytes in front of the bootstrap stub")
        mp = call(pe.find_magic_pe, mk())
        want_mp = sig.cells[:]
        while want_mp and truth(compare("==", SymInt.from_byte(want_mp[-1]) if not isinstance(want_mp[-1], int) else want_mp[-1], 0)):
            want_mp.pop()
        ctx.prove(mp is not None and deep_eq(as_bytes(mp), SymBytes(want_mp)), "magic_pe == PE signature bytes without trailing NULs")
        pre, app = call(pe.find_stage_prepend_append, mk())
        if p_total:
            ctx.prove(pre is not None and deep_eq(as_bytes(pre), prepend), "stage prepend == bytes in front of the image")
        else:
            ctx.prove(pre is None, "no prepend -> None")
        if a:
            ctx.prove(app is not None and deep_eq(as_bytes(app), append), "stage append == bytes behind headers + raw sections")
        else:
            ctx.prove(app is None, "no append -> None")
    return body


def h_from_bytes(arch):
    """BeaconConfig.from_bytes on a stage = prepend + image whose section holds an obfuscated configuration block: the reported
    architecture, compile stamp and export stamp are the image's, for EVERY 32-bit stamp (0 included)"""
    def body(ctx):
        from harness.c01 import small_block
        # (one symbolic byte per stamp — the low byte, so that 0 is inside the quantifier; every further symbolic byte in the headers
        # doubles the paths of the needle / nonce scans that from_bytes runs over the whole stage)
        cstamp = SymBytes(sym_bytes("compile_stamp", 1).cells + [0, 0, 0])
        estamp = SymBytes(sym_bytes("export_stamp", 1).cells + [0x5F, 0x94, 0x5F])
        blk = small_block(0x2E, [0, 8], extra=4)
        exportdir = [0, 0, 0, 0] + estamp.cells + [0] * 32
        raw = blk + [0x33] * (40 - len(blk)) + exportdir
        raw = raw + [0x44] * (RAW - len(raw))
        img, lay = build_image(arch, 64, 1, b"MZAR", b"PE\0\0", cstamp.cells, [(0x2000, 0x60)], 0x2000 + 40, [raw])
        data = V.unwrap(SymBytes([0x90, 0x90, 0x90] + img))
        kind, r = outcome(BeaconConfig.from_bytes, data if not is_native() else V.to_native(SymBytes(seq_cells(data, SymBytes))))
        ctx.prove(kind == "ok", "stage with an embedded configuration is extracted (%s)" % (r if kind == "exc" else ""))
        if kind != "ok":
            return
        ctx.prove(r.architecture == arch, "architecture == Machine of the image (got %r)" % (r.architecture,))
        ctx.prove(deep_eq(r.pe_compile_stamp, m_int_from_bytes(cstamp, "little")), "pe_compile_stamp == TimeDateStamp of the file header")
        ctx.prove(deep_eq(r.pe_export_stamp, m_int_from_bytes(estamp, "little")), "pe_export_stamp == TimeDateStamp of the export directory")
    return body


def h_from_bytes_guarded(arch, encoded):
    """the same for a stage whose configuration is protected with Guardrails (scaled patch areas, key candidates supplied by the
    harness as in C17) — plain image, and the image inside a XorEncoded stage. Plain image: symbolic low stamp bytes. XorEncoded
    stage: CONCRETE scenario run through the interpreter (the rolling XOR would spread a symbolic byte over the whole stage)"""
    P, G = 24, 20

    def body(ctx):
        from harness import c17
        from harness.c09 import encode
        from dissect.cobaltstrike import guardrails
        if encoded:
            cstamp = SymBytes([0x21, 0x43, 0x65, 0x5E])
            estamp = SymBytes([0x10, 0x5F, 0x94, 0x5F])
        else:
            cstamp = SymBytes(sym_bytes("compile_stamp", 1).cells + [0x43, 0x65, 0x5E])
            estamp = SymBytes(sym_bytes("export_stamp", 1).cells + [0x5F, 0x94, 0x5F])
        plain = CB.rec(1, CB.SHORT, [0, 8]) + CB.rec(2, CB.SHORT, [0x01, 0xBB]) + [0, 0]
        plain += [0] * (P - len(plain))
        key = [0x5A, 0xA7]
        good = guardrails.payload_checksum(bytes(plain)) + 1
        area, lay = c17.protect(P, G, plain, key, ("user",), {"user": [0x35, 0x36]}, list(good.to_bytes(4, "big")), 0, 0)
        exportdir = [0, 0, 0, 0] + estamp.cells + [0] * 32
        raw = [0x33] * 40 + exportdir
        assert len(raw) == RAW
        img, _ = build_image(arch, 64, 1, b"MZAR", b"PE\0\0", cstamp.cells, [(0x2000, 0x60)], 0x2000 + 40, [raw])
        img = img + area + [0x51, 0x52]  # the protected areas behind the image (overlay)
        if encoded:
            stage = encode(SymBytes(img), SymBytes([0x13, 0x37, 0xC0, 0xDE]), SymBytes([0x90] * 6 + [0xFF, 0xFF, 0xFF])).cells
        else:
            stage = [0x90, 0x90, 0x90] + img
        real = guardrails.find_xor_key_candidates
        c17.scaled(P, G, True)
        if is_native():
            guardrails.find_xor_key_candidates = lambda fh: [bytes(key)]
        else:
            I.stubs[real] = lambda fh: [bytes(key)]
        try:
            data = V.unwrap(SymBytes(stage))
            kind, r = outcome(BeaconConfig.from_bytes, data if not is_native() else V.to_native(SymBytes(seq_cells(data, SymBytes))))
        finally:
            c17.scaled(P, G, False)
            if is_native():
                guardrails.find_xor_key_candidates = real
            I.stubs.pop(real, None)
        ctx.prove(kind == "ok", "Guardrails-protected stage is extracted (%s)" % (r if kind == "exc" else ""))
        if kind != "ok":
            return
        ctx.prove(r.guardrails is not None and deep_eq(as_bytes(r.config_block), SymBytes(plain)), "the protected configuration is the one recovered")
        ctx.prove(r.architecture == arch, "architecture == Machine of the image (got %r)" % (r.architecture,))
        ctx.prove(deep_eq(r.pe_compile_stamp, m_int_from_bytes(cstamp, "little")), "pe_compile_stamp == TimeDateStamp of the file header (got %r)" % (r.pe_compile_stamp,))
        ctx.prove(deep_eq(r.pe_export_stamp, m_int_from_bytes(estamp, "little")), "pe_export_stamp == TimeDateStamp of the export directory (got %r)" % (r.pe_export_stamp,))
    return body


def io_model(data):
    if is_native():
        import io
        return io.BytesIO(V.to_native(data) if not isinstance(data, (bytes, bytearray)) else data)
    return ModelBytesIO(data)


def definition_mz(ctx, data):
    """B.7: smallest offset o < 1024 with 0 < i32le(file[o+60:o+64]) < 1024 and u16le(file[o+4+e_lfanew:][:2]) in {0x14c, 0x8664},
    both reads inside the file (64-byte DOS header, 20-byte file header)"""
    cells = seq_cells(data, SymBytes)
    n = len(cells)
    for o in range(min(1024, n)):
        if o + 64 > n:
            break
        lf = m_int_from_bytes(SymBytes(cells[o + 60:o + 64]), "little", signed=True)
        if not (truth(compare(">", lf, 0)) and truth(compare("<", lf, 1024))):
            continue
        lfc = concretize(lf) if not is_native() else lf
        fo = o + 4 + lfc
        if fo + 20 > n:
            continue
        m = m_int_from_bytes(SymBytes(cells[fo:fo + 2]), "little")
        if truth(compare("==", m, 0x14C)) or truth(compare("==", m, 0x8664)):
            return o
    return None


# ----------------------------------------------------------------------------------------------------------------------
# version
# ----------------------------------------------------------------------------------------------------------------------

MONTHS = dict(Jan=1, Feb=2, Mar=3, Apr=4, May=5, Jun=6, Jul=7, Aug=8, Sep=9, Oct=10, Nov=11, Dec=12)
RX = _re.compile(r"Cobalt Strike (\d+)\.(\d+)(?:\.(\d+))? \((\w{3}) (\d{2}), (\d{4})\)\Z")


def parse_ref(text):
    """independent reading of 'Cobalt Strike 4.7.1 (Sep 16, 2022)' -> (tuple, date)"""
    m = RX.match(text)
    if not m:
        return None, None
    tup = (int(m.group(1)), int(m.group(2))) + ((int(m.group(3)),) if m.group(3) else ())
    return tup, datetime.date(int(m.group(6)), MONTHS[m.group(4)], int(m.group(5)))


def h_version(have_stamp):
    def body(ctx):
        blk = bytes(CB.rec(1, CB.SHORT, CB.u16be(0))) + b"\x00\x00"
        cfg = call(BeaconConfig, blk)
        maxidx = sym_int("max_setting_enum", 0, 0xFFFF)
        if have_stamp == "stamp":
            stamp = sym_int("pe_export_stamp", 1, 0xFFFFFFFF)
        elif have_stamp == "zero":
            stamp = 0
        else:
            stamp = None
        cfg.pe_export_stamp = stamp
        # max_setting_enum is derived from the settings: build the block from the symbolic index instead of poking the attribute
        idx_cells = as_bytes(m_int_to_bytes(maxidx, 2, "big")).cells
        if not is_native():
            ctx.assume(compare("!=", maxidx, 0))
        elif maxidx == 0:
            raise PathAbort()
        blk2 = V.unwrap(SymBytes(list(idx_cells) + CB.u16be(CB.SHORT) + CB.u16be(2) + [0, 1, 0, 0]))
        cfg = call(BeaconConfig, blk2)
        cfg.pe_export_stamp = stamp
        ctx.prove(deep_eq(I.getattr(cfg, "max_setting_enum"), maxidx), "max_setting_enum is the highest index of the block")
        v = I.getattr(cfg, "version")
        text = str(v) if is_native() else v.version
        if stamp:
            want = "Unknown"
            for k_, t in version.PE_EXPORT_STAMP_TO_VERSION.items():
                if truth(compare("==", stamp, k_)):
                    want = t
                    break
        else:
            want = "Unknown"
            for k_, t in version.MAX_ENUM_TO_VERSION.items():
                if truth(compare("==", maxidx, k_)):
                    want = t
                    break
        ctx.prove(text == want, "version is the table entry for the %s (got %r want %r)" % ("export stamp" if stamp else "highest setting index", text, want))
        tup, date = parse_ref(want)
        ctx.prove(v.tuple == tup, "parsed tuple agrees with the text (%r vs %r)" % (v.tuple, tup))
        ctx.prove(v.date == date, "parsed date agrees with the text (%r vs %r)" % (v.date, date))
    return body


def h_monotone(which):
    """solver query over the table: two symbolic keys i < j whose releases are out of order (by tuple or by date)?"""
    def body(ctx):
        table = version.PE_EXPORT_STAMP_TO_VERSION if which == "stamp" else version.MAX_ENUM_TO_VERSION
        hi = 0xFFFFFFFF if which == "stamp" else 0xFFFF
        i = sym_int("key_i", 0, hi)
        j = sym_int("key_j", 0, hi)
        if is_native():
            if i not in table or j not in table or not i < j:
                raise PathAbort()
            vi, vj = BeaconVersion(table[i]), BeaconVersion(table[j])
            ctx.prove(tuple(vi.tuple) <= tuple(vj.tuple) and vi.date <= vj.date, "table monotone at %r < %r" % (i, j))
            return
        # rank of a release = (major, minor, patch, ordinal date) as one integer, through the library's own parser
        def rank_of(key, what):
            e = None
            for k_, t in reversed(list(table.items())):
                v = call(BeaconVersion, t)
                tup = tuple(v.tuple) + (0,) * (3 - len(v.tuple))
                r = ((tup[0] * 1000 + tup[1]) * 1000 + tup[2]) if what == "tuple" else v.date.toordinal()
                e = z3.If(key.e == k_, z3.IntVal(r), e if e is not None else z3.IntVal(-1))
            return e
        ctx.assume(mkbool(z3.Or(*[i.e == k_ for k_ in table])))
        ctx.assume(mkbool(z3.Or(*[j.e == k_ for k_ in table])))
        ctx.assume(compare("<", i, j))
        for what in ("tuple", "date"):
            ctx.prove(mkbool(rank_of(i, what) <= rank_of(j, what)), "%s table is monotone by %s: a later key never maps to an earlier release" % (which, what))
        for k_, t in table.items():
            v = call(BeaconVersion, t)
            tup, date = parse_ref(t)
            ctx.prove(tup is not None and v.tuple == tup and v.date == date, "entry %r: tuple/date agree with the text" % t)
    return body


def instances(tier):
    q = tier == "quick"
    out = []
    lf = (64, 72, 200) if q else (64, 65, 72, 128, 200, 1000)
    for arch in ("x86", "x64"):
        for e in lf:
            for nsec in ((0, 1, 2) if q else (0, 1, 2, 3)):
                for p in ((0, 1, 3) if q else (0, 1, 2, 3, 5)):
                    if q and (e != 64 and (p == 1 or nsec == 0)):
                        continue
                    k = 2 + (p + nsec) % 3
                    a = (p + nsec + (e // 8)) % 4
                    out.append(Instance("artifacts %s e_lfanew=%d sections=%d prepend=%d magic=%d append=%d" % (arch, e, nsec, p, k, a),
                                        h_artifacts(arch, e, nsec, p, k, a, 24 if q else 40),
                                        dict(kind="artifacts", arch=arch, e_lfanew=e, sections=nsec, prepend=p, magic_len=k, append=a,
                                             cost=30 ** nsec), max_loop=2000))
    # long prepends: image offset + e_lfanew beyond 1024 while each stays below it
    for arch, pad, e in (("x86", 900, 200), ("x64", 1000, 72)) if q else (("x86", 900, 200), ("x64", 1000, 72), ("x86", 400, 1000), ("x64", 1021, 64)):
        out.append(Instance("artifacts %s long prepend=%d+1 e_lfanew=%d" % (arch, pad, e), h_artifacts(arch, e, 0, 1, 2, 0, 24, pad=pad),
                            dict(kind="artifacts", arch=arch, e_lfanew=e, sections=0, prepend=pad + 1, cost=10 ** 5), max_loop=3000, split=8))
    for arch in ("x86", "x64"):
        for enc in (False, True):
            if q and enc and arch == "x86":
                continue
            i = Instance("extraction of a Guardrails-protected %s reports the image's artifacts %s" % ("XorEncoded stage" if enc else "image", arch), h_from_bytes_guarded(arch, enc),
                         dict(kind="from_bytes_guardrails", arch=arch, xorencoded=enc, symbolic="none (concrete scenario)" if enc else "low stamp bytes",
                              patch_sizes="scaled 24/20", cost=10 ** 5), max_loop=20000, split=8)
            from dissect.cobaltstrike import guardrails as _g
            i.native_patches = [(_g, "BEACON_CONFIG_PATCH_SIZE", 24), (_g, "GUARD_PATCH_SIZE", 20)]
            out.append(i)
        out.append(Instance("extraction reports the image's artifacts %s" % arch, h_from_bytes(arch), dict(kind="from_bytes", arch=arch, cost=10 ** 5), max_loop=20000, split=8))
    for hs in ("stamp", "zero", "none"):
        out.append(Instance("version precedence export stamp=%s" % hs, h_version(hs), dict(kind="version", export_stamp=hs), split=8))
    for w in ("stamp", "index"):
        out.append(Instance("table monotone (%s)" % w, h_monotone(w), dict(kind="monotone", table=w)))
    return out


def prechecks(tier, seed):
    """the image builder against the real parser on the concrete instance; the sample beacons' PE artifacts through the interpreter"""
    import io
    import random as _r

    rnd = _r.Random(seed)
    n = 0
    V.Ctx.cur = V.Ctx()
    for arch in ("x86", "x64"):
        for _ in range(6):
            e = rnd.choice((64, 72, 200))
            nsec = rnd.randrange(0, 3)
            p = rnd.randrange(0, 4)
            raws = [rnd.randbytes(RAW) for _ in range(nsec)]
            secs = [(0x1000 * (i + 1), 0x40) for i in range(nsec)]
            rva = (secs[-1][0] + 8) if nsec else 0
            magic = b"MZ" + rnd.randbytes(2)
            img, lay = build_image(arch, e, nsec, magic, b"PE\0\0", list((1600000000 + n).to_bytes(4, "little")), secs, rva, raws)
            data = bytes([0x90] * p) + bytes(img) + b"\x41\x42"
            assert pe.find_mz_offset(io.BytesIO(data)) == p
            assert pe.find_architecture(io.BytesIO(data)) == arch
            cs, es = pe.find_compile_stamps(io.BytesIO(data))
            assert cs == 1600000000 + n
            assert es == (int.from_bytes(raws[-1][8 + 4:8 + 8], "little") if nsec else None)
            assert pe.find_magic_mz(io.BytesIO(data)) == magic and pe.find_magic_pe(io.BytesIO(data)) == b"PE"
            assert pe.find_stage_prepend_append(io.BytesIO(data)) == ((b"\x90" * p) or None, b"AB")
            # interpreter on the same bytes
            assert call(pe.find_mz_offset, ModelBytesIO(data)) == p
            assert call(pe.find_compile_stamps, ModelBytesIO(data)) == (cs, es)
            n += 2
    return dict(validated=n)
