"""C16 — raw HTTP messages are parsed into exactly their parts (DESIGN.md §4 C16, App. B.5)"""
import itertools
import urllib.parse as _up

from harness.common import *  # noqa: F401,F403
from dissect.cobaltstrike import c2

INFO = dict(
    files=["dissect/cobaltstrike/c2.py"],
    bounds=dict(
        quick="requests: method of 1..4 symbolic token bytes, path '/' + 0..6 symbolic printable-ASCII bytes (no space ? #, not starting "
        "'//', ';' included), query from 8 concrete strings (percent-escapes, '+', empty values, repeated keys, bad escapes), 0..3 header "
        "lines with symbolic keys (1..2 bytes, no CR/LF, no ': ') and values (0..2 bytes, lone CR or LF allowed, no CR LF pair), body of 0..12 fully symbolic bytes "
        "(CR LF CR LF and NUL included); responses: status of 3 symbolic digits 100..599, reason token 1..3 symbolic bytes, same "
        "headers/body; malformed start lines: every first line of 0..7 symbolic bytes, also behind the prefixes 'HTTP/', 'HTTP/1.1 200 ' and 'GET / '",
        thorough="path up to 10 bytes, 4 header lines, body up to 24 bytes, first line up to 9 bytes",
    ),
    outside="percent-decoding itself (urllib.parse.parse_qsl runs natively on the enumerated concrete queries; the solver proves that "
    "exactly the part after '?' reaches it); request targets not in origin-form; multi-word reason phrases; duplicate or folded "
    "headers; three-part start lines whose fields are not tokens of the documented shape",
    stubs=["urllib.parse.urlparse/urlsplit -> origin-form model mirroring CPython 3.12 (validated against the real functions each run)",
           "parse_qsl -> native on concrete queries", "int(str) -> decimal model for ASCII digits"],
    assumptions=["z3 decides QF_BV soundly"],
)

QUERIES = [None, b"", b"a=1", b"a=1&b=%41+x", b"k=&j=2", b"=v", b"a=1&a=2", b"%zz=1&x=%00", b"id=%ff", b"%e9%80=%c3%a9&n=%7f%80"]


def ref_qsl(query):
    """independent reading of a query string: '&'-separated key=value pairs, '+' is a space, %XX is that byte (malformed escapes are
    kept literally), pairs without '=' or with an empty value are dropped, a repeated key keeps its last value"""
    def unq(b):
        b = b.replace(b"+", b" ")
        out = bytearray()
        i = 0
        while i < len(b):
            if b[i] == 0x25 and i + 2 < len(b) + 0 and len(b) - i >= 3:
                h = b[i + 1:i + 3]
                try:
                    if all(chr(c) in "0123456789abcdefABCDEF" for c in h):
                        out.append(int(h, 16))
                        i += 3
                        continue
                except ValueError:
                    pass
            out.append(b[i])
            i += 1
        return bytes(out)

    res = {}
    for part in query.split(b"&"):
        if not part:
            continue
        k, eq, v = part.partition(b"=")
        if not eq or not v:
            continue
        res[unq(k)] = unq(v)
    return res
WS = (9, 10, 11, 12, 13, 32)


def not_ws(ctx, c):
    if isinstance(c, int):
        if c in WS:
            raise PathAbort()
    else:
        ctx.assume(mkbool(z3.And(*[c != k for k in WS])))


def build_headers(ctx, n, klen, vlen):
    hs = []
    for i in range(n):
        k = sym_bytes("hk%d" % i, klen)
        v = sym_bytes("hv%d" % i, vlen)
        for c in k.cells:
            if isinstance(c, int):
                if c in (10, 13):
                    raise PathAbort()
            else:
                ctx.assume(mkbool(z3.And(c != 10, c != 13)))
        # values: a lone CR or a lone LF does not end a header line (only the CR LF pair does); the pair itself is excluded
        for a, b in zip(v.cells, v.cells[1:]):
            if isinstance(a, int) and isinstance(b, int):
                if a == 13 and b == 10:
                    raise PathAbort()
            else:
                ctx.assume(mkbool(z3.Not(z3.And(bv(a) == 13, bv(b) == 10))))
        # key does not contain ': '
        for a, b in zip(k.cells, k.cells[1:]):
            if isinstance(a, int):
                if a == 58 and b == 32:
                    raise PathAbort()
            else:
                ctx.assume(mkbool(z3.Not(z3.And(a == 58, b == 32))))
        for pk, _ in hs:
            r = pk.eq(k)
            ctx.assume(mkbool(z3.Not(r.e)) if isinstance(r, SymBool) else (not r))
        hs.append((k, v))
    return hs


def render_headers(hs):
    out = []
    for k, v in hs:
        out += k.cells + [58, 32] + v.cells + [13, 10]
    return out


def check_headers(ctx, got, hs):
    items = list(got.items())
    ctx.prove(len(items) == len(hs), "exactly the %d header lines are reported (got %d: %r)" % (len(hs), len(items), [k for k, _ in items][:3]))
    for (gk, gv), (k, v) in zip(items, hs):
        ctx.prove(deep_eq(as_bytes(gk), k), "header name preserved")
        ctx.prove(deep_eq(as_bytes(gv), v), "header value preserved")


def h_request(mlen, plen, query, nh, klen, vlen, blen):
    def body(ctx):
        method = sym_bytes("method", mlen)
        for c in method.cells:
            not_ws(ctx, c)
        tail = sym_bytes("path", plen)
        for i, c in enumerate(tail.cells):
            if isinstance(c, int):
                if not (0x21 <= c <= 0x7E) or c in (63, 35) or (i == 0 and c == 47):
                    raise PathAbort()
            else:
                conj = [z3.UGE(c, 0x21), z3.ULE(c, 0x7E), c != 63, c != 35]
                if i == 0:
                    conj.append(c != 47)
                ctx.assume(mkbool(z3.And(*conj)))
        path = SymBytes([47] + tail.cells)
        hs = build_headers(ctx, nh, klen, vlen)
        bd = sym_bytes("body", blen)
        target = path.cells + ([63] + list(query) if query is not None else [])
        wire = method.cells + [32] + target + [32] + list(b"HTTP/1.1") + [13, 10] + render_headers(hs) + [13, 10] + bd.cells
        # (the blank line is the CRLF that ends the last header line / start line plus one more CRLF)
        kind, r = outcome(c2.parse_raw_http, V.unwrap(SymBytes(wire)))
        ctx.prove(kind == "ok", "well-formed request parses (got %r)" % (r,))
        if kind != "ok":
            return
        ctx.prove(isinstance(r, c2.HttpRequest), "a request line yields an HttpRequest")
        ctx.prove(deep_eq(as_bytes(r.method), method), "method preserved")
        ctx.prove(deep_eq(as_bytes(r.uri), path), "path reported exactly (everything before '?')")
        exp_params = ref_qsl(query) if query else {}
        gp = {V.to_native(as_bytes(k)) if not isinstance(k, bytes) else k: (V.to_native(as_bytes(v)) if not isinstance(v, bytes) else v)
              for k, v in r.params.items()}
        ctx.prove(gp == exp_params, "query parameters == percent-decoded pairs of the part after '?' (%r vs %r)" % (gp, exp_params))
        check_headers(ctx, r.headers, hs)
        ctx.prove(deep_eq(as_bytes(r.body), bd), "body preserved byte-for-byte")
    return body


def h_response(version, rlen, nh, klen, vlen, blen):
    def body(ctx):
        d = [sym_int("d%d" % i, 0, 9) for i in range(3)]
        ctx.assume(compare(">=", d[0], 1))
        ctx.assume(compare("<=", d[0], 5))
        digits = []
        for x in d:
            digits.append(V.as_cell(binop("+", x, 48), 8))
        reason = sym_bytes("reason", rlen)
        for c in reason.cells:
            not_ws(ctx, c)
        hs = build_headers(ctx, nh, klen, vlen)
        bd = sym_bytes("body", blen)
        wire = list(version) + [32] + digits + [32] + reason.cells + [13, 10] + render_headers(hs) + [13, 10] + bd.cells
        kind, r = outcome(c2.parse_raw_http, V.unwrap(SymBytes(wire)))
        ctx.prove(kind == "ok", "well-formed response parses (got %r)" % (r,))
        if kind != "ok":
            return
        ctx.prove(isinstance(r, c2.HttpResponse), "a status line yields an HttpResponse")
        code = binop("+", binop("+", binop("*", d[0], 100), binop("*", d[1], 10)), d[2])
        ctx.prove(deep_eq(r.status, code), "status code == the three digits")
        ctx.prove(deep_eq(as_bytes(r.reason), reason), "reason preserved")
        check_headers(ctx, r.headers, hs)
        ctx.prove(deep_eq(as_bytes(r.body), bd), "body preserved byte-for-byte")
    return body


def h_badline(L, prefix=b""):
    def body(ctx):
        line = sym_bytes("line", L)
        for c in line.cells:
            # the first line ends at the first CRLF; keep CR/LF out so the whole symbolic string is the first line
            if isinstance(c, int):
                if c in (10, 13):
                    raise PathAbort()
            else:
                ctx.assume(mkbool(z3.And(c != 10, c != 13)))
        # independent count of whitespace separated parts
        line = SymBytes(list(prefix) + line.cells)
        parts, inword = 0, False
        for c in line.cells:
            ws = (c in WS) if isinstance(c, int) else truth(mkbool(z3.Or(*[c == k for k in WS])))
            if not ws and not inword:
                parts += 1
            inword = not ws
        if parts == 3:
            raise PathAbort()  # three-part lines are the subject of the request/response instances
        wire = line.cells + [13, 10, 13, 10] + [0x41]
        kind, r = outcome(c2.parse_raw_http, V.unwrap(SymBytes(wire)))
        ctx.prove(kind == "exc" and isinstance(r, ValueError),
                  "a first line with %d whitespace-separated parts is rejected with ValueError (got %s %r)" % (parts, kind, r))
    return body


def instances(tier):
    q = tier == "quick"
    out = []
    for plen in (range(0, 7) if q else range(0, 11)):
        for qi, query in enumerate(QUERIES):
            if plen not in (0, 2) and qi not in (0, 3):
                continue
            out.append(Instance("request path=%d query=%r" % (plen, query), h_request(3, plen, query, 1, 1, 1, 2),
                                dict(kind="request", path_len=plen, query=repr(query), cost=3 ** plen), split=6))
    for mlen in (1, 2, 4):
        out.append(Instance("request method=%d" % mlen, h_request(mlen, 1, None, 0, 0, 0, 0), dict(kind="request", method_len=mlen)))
    for nh, klen, vlen in ((0, 0, 0), (1, 2, 2), (2, 1, 1), (2, 2, 0), (3, 1, 1)) + (() if q else ((2, 2, 2), (3, 2, 2), (4, 1, 1))):
        out.append(Instance("request headers n=%d k=%d v=%d" % (nh, klen, vlen), h_request(3, 1, b"a=1", nh, klen, vlen, 1),
                            dict(kind="request_headers", n=nh, klen=klen, vlen=vlen), split=6))
        out.append(Instance("response headers n=%d k=%d v=%d" % (nh, klen, vlen), h_response(b"HTTP/1.1", 2, nh, klen, vlen, 1),
                            dict(kind="response_headers", n=nh, klen=klen, vlen=vlen), split=6))
    for blen in (range(0, 13) if q else range(0, 25)):
        out.append(Instance("request body=%d" % blen, h_request(3, 1, None, 1, 1, 1, blen), dict(kind="request_body", body_len=blen, cost=2 ** blen), split=8))
        out.append(Instance("response body=%d" % blen, h_response(b"HTTP/1.0", 2, 1, 1, 1, blen), dict(kind="response_body", body_len=blen, cost=2 ** blen), split=8))
    for version in (b"HTTP/1.1", b"http/1.1", b"HTTP/2"):
        for rlen in (1, 3):
            out.append(Instance("response %s reason=%d" % (version.decode(), rlen), h_response(version, rlen, 0, 0, 0, 2),
                                dict(kind="response", version=version.decode(), reason_len=rlen)))
    for L in (range(0, 8) if q else range(0, 10)):
        out.append(Instance("malformed first line L=%d" % L, h_badline(L), dict(kind="badline", L=L, cost=3 ** L), split=8))
    # structure-aware: status lines ('HTTP/' + symbolic tail) and request-like lines ('GET / ' + tail) with too few / too many parts
    for prefix in (b"HTTP/", b"HTTP/1.1 200 ", b"GET / "):
        for L in (range(0, 8) if q else range(0, 10)):
            out.append(Instance("malformed first line %r + L=%d" % (prefix.decode(), L), h_badline(L, prefix),
                                dict(kind="badline", prefix=prefix.decode(), L=L, cost=3 ** L), split=8))
    return out


def prechecks(tier, seed):
    """urlparse model vs urllib on origin-form targets; interpreter vs CPython on the repo's own test messages"""
    import random

    rnd = random.Random(seed)
    V.Ctx.cur = V.Ctx()
    n = 0
    alpha = "/;?#a=&%1 "
    for _ in range(1500):
        t = "/" + "".join(rnd.choice(alpha) for _ in range(rnd.randrange(0, 7)))
        if t.startswith("//") or " " in t:
            continue
        b = t.encode()
        real = _up.urlparse(b)
        mine = models_url.m_urlparse(SymBytes([z3.BitVecVal(c, 8) for c in b]))
        def conc(x):
            return bytes(z3.simplify(bv(c)).as_long() if not isinstance(c, int) else c for c in seq_cells(x, SymBytes))
        assert (conc(mine.path), conc(mine.params), conc(mine.query), conc(mine.fragment)) == (real.path, real.params, real.query, real.fragment), (t, real)
        rs = _up.urlsplit(b)
        ms = models_url.m_urlsplit(SymBytes([z3.BitVecVal(c, 8) for c in b]))
        assert (conc(ms.path), conc(ms.query), conc(ms.fragment)) == (rs.path, rs.query, rs.fragment), (t, rs)
        n += 2
    msgs = [b"GET /foo?a=1&b=2 HTTP/1.1\r\nHost: x\r\nCookie: abc\r\n\r\nbody\r\n\r\nmore", b"HTTP/1.1 200 OK\r\nA: b\r\n\r\n\x00\x01",
            b"POST /submit.php?id=12 HTTP/1.1\r\n\r\n", b"garbage", b"", b"HTTP/1.1 200\r\n\r\n"]
    for m in msgs:
        try:
            a = c2.parse_raw_http(m)
        except Exception as e:  # noqa: BLE001
            a = type(e).__name__
        try:
            b = call(c2.parse_raw_http, m)
            b = type(b)(*[V.to_native(x) if not isinstance(x, dict) else {V.to_native(k): V.to_native(v) for k, v in x.items()} for x in b])
        except Exception as e:  # noqa: BLE001
            b = type(e).__name__
        assert a == b, ("parse_raw_http interp vs native", m, a, b)
        n += 1
    return dict(validated=n)
