"""C10 — regenerated profile text preserves every token of the parsed profile (DESIGN.md §4 C10)"""
import lark
from lark.grammar import Terminal, NonTerminal
from lark.lexer import PatternStr

from harness.common import *  # noqa: F401,F403
from symx import models_lark as ML
from dissect.cobaltstrike import c2profile
from dissect.cobaltstrike.c2profile import C2Profile, c2profile_parser
import dissect.cobaltstrike.c2profile as C2P

INFO = dict(
    files=["dissect/cobaltstrike/c2profile.lark", "dissect/cobaltstrike/c2profile.py"],
    bounds=dict(
        quick="(1) table query over ALL productions of the loaded grammar (after EBNF expansion): is there a production reachable from "
        "`start` whose regenerated token sequence differs from its own — i.e. whose (tree label, kept-children shape) group is "
        "represented by an earlier production with other keywords (the tree matcher keeps the first production per group)? decided by "
        "z3 over the interned rule table with a symbolic production index; (2) every reachable production: a minimal sentence "
        "containing it through the real from_text -> as_text -> from_text (token sequence via the real lexer, tree equality) — model "
        "validation, run concretely; (3) as_text's layout generator interpreted over the model token stream of 9 statement/block "
        "skeletons (options, pairs, nested blocks, variants, data transforms, execute/BeaconGate lists, empty blocks) whose string "
        "literals hold 1..3 symbolic characters each (full Unicode range, constrained to a valid STRING body): the produced text is "
        "re-tokenised by a lexer model and must give the same token sequence, literals cell for cell",
        thorough="literals of up to 4 symbolic characters; 14 skeletons; two symbolic literals per statement",
    ),
    outside="the lark LALR parser, contextual lexer and Earley-based tree matcher themselves (third party): replaced by the grammar-table "
    "model, which (2) validates against the real library on every production each run; profiles deeper than the skeletons for (3) "
    "(the layout generator is line-based: its state is the current line and an indent counter)",
    stubs=["lark Reconstructor -> grammar-table token stream + lark's own join rule (insert_spaces / is_id_continue)",
           "lexer model: WS and #-comments skipped, STRING by the grammar's rule, punctuation, maximal keyword runs"],
    assumptions=["z3 decides the table query soundly", "lark behaves as its TreeMatcher source says (first production per (label, shape) group)"],
)

P = c2profile_parser
RULES = list(P.rules)
TERMS = {t.name: t for t in P.terminals}


# ----------------------------------------------------------------------------------------------------------------------
# grammar table (regenerated from the loaded parser on every run)
# ----------------------------------------------------------------------------------------------------------------------


def table():
    expand1s = {r.origin for r in RULES if r.options.expand1}
    with_alias = {r.origin for r in RULES if r.alias}
    names = {r.origin for r in RULES}
    nonterms = {s for s in names if s.name.startswith("_") or s in expand1s or s in with_alias}
    reach = {"start"}
    changed = True
    while changed:
        changed = False
        for r in RULES:
            if r.origin.name in reach:
                for s in r.expansion:
                    if not s.is_term and s.name not in reach:
                        reach.add(s.name)
                        changed = True
    rows = []
    first = {}
    for idx, r in enumerate(RULES):
        label = r.alias or r.origin.name
        shape = tuple((s.name, s in nonterms) for s in r.expansion if not (s.is_term and s.filter_out))
        tokens = tuple(s.name for s in r.expansion)
        key = (label, shape)
        # lark.tree_matcher: rules with equal (label, kept expansion) are one group; the first one (grammar order) represents it.
        # helper (_x) and expand1 rules that are inlined do not get a label of their own: they are not looked up by tree.data
        lookup = not (r.origin.name.startswith("_"))
        if lookup:
            first.setdefault(key, idx)
        rows.append(dict(idx=idx, label=label, shape=shape, tokens=tokens, reachable=r.origin.name in reach, lookup=lookup,
                         first=first.get(key, idx) if lookup else idx))
    return rows


def intern(values):
    d = {}
    return [d.setdefault(v, len(d)) for v in values]


def h_table():
    def body(ctx):
        rows = table()
        n = len(rows)
        tok_id = intern([r["tokens"] for r in rows])
        j = sym_int("production", 0, n - 1)
        if is_native():
            r = rows[j]
            ctx.prove(rows[r["first"]]["tokens"] == r["tokens"] or not r["reachable"],
                      "production %d (%s) is regenerated as production %d: %s" % (j, r["label"], r["first"], sentence_for(j)))
            ok, detail = real_roundtrip(sentence_for(j))
            ctx.prove(ok, "real round trip of %r: %s" % (sentence_for(j), detail))
            return
        # the tables as z3 functions of the symbolic production index
        def col(vals):
            e = z3.IntVal(vals[-1])
            for k in range(n - 2, -1, -1):
                e = z3.If(j.e == k, z3.IntVal(vals[k]), e)
            return e
        tok_of_j = col(tok_id)
        tok_of_first = col([tok_id[r["first"]] for r in rows])
        reach = col([1 if r["reachable"] and r["lookup"] else 0 for r in rows])
        ctx.prove(mkbool(z3.Implies(reach == 1, tok_of_first == tok_of_j)),
                  "every reachable production is regenerated with its own keywords (no (label, children) group mixes two token sequences)")
    return body


# ----------------------------------------------------------------------------------------------------------------------
# sentences
# ----------------------------------------------------------------------------------------------------------------------

_MIN = None


def term_text(name):
    t = TERMS[name]
    if isinstance(t.pattern, PatternStr):
        return t.pattern.value
    return {"OPTION": "sleeptime", "STRING": '"x"'}[name]


def min_sentences():
    """shortest token list per non-terminal (fixpoint)"""
    global _MIN
    if _MIN is not None:
        return _MIN
    best = {}
    changed = True
    while changed:
        changed = False
        for r in RULES:
            out = []
            ok = True
            for s in r.expansion:
                if s.is_term:
                    out.append(term_text(s.name))
                elif s.name in best:
                    out.extend(best[s.name])
                else:
                    ok = False
                    break
            if ok and (r.origin.name not in best or len(out) < len(best[r.origin.name])):
                best[r.origin.name] = out
                changed = True
    _MIN = best
    return best


def sentence_for(idx):
    """a short sentence of the language whose derivation uses production idx"""
    best = min_sentences()
    target = RULES[idx]

    def expand_rule(r):
        out = []
        for s in r.expansion:
            out.extend([term_text(s.name)] if s.is_term else best[s.name])
        return out

    # context: BFS from start to the origin of the target
    parent = {"start": None}
    queue = ["start"]
    while queue:
        nt = queue.pop(0)
        for r in RULES:
            if r.origin.name != nt:
                continue
            for pos, s in enumerate(r.expansion):
                if not s.is_term and s.name not in parent:
                    parent[s.name] = (r, pos)
                    queue.append(s.name)
    if target.origin.name not in parent:
        return None
    toks = expand_rule(target)
    nt = target.origin.name
    while parent[nt] is not None:
        r, pos = parent[nt]
        out = []
        for k, s in enumerate(r.expansion):
            if k == pos:
                out.extend(toks)
            else:
                out.extend([term_text(s.name)] if s.is_term else best[s.name])
        toks = out
        nt = r.origin.name
    return " ".join(toks)


def lex(text):
    return [(t.type, str(t)) for t in P.lex(text)]


def real_roundtrip(text):
    try:
        prof = C2Profile.from_text(text)
        out = prof.as_text()
        again = C2Profile.from_text(out)
    except Exception as e:  # noqa: BLE001
        return False, "%s: %s" % (type(e).__name__, str(e)[:120])
    if lex(text) != lex(out):
        return False, "tokens differ: %r -> %r" % (text, out)
    if again.tree != prof.tree:
        return False, "re-parsed tree differs"
    return True, ""


# ----------------------------------------------------------------------------------------------------------------------
# (3) layout generator over symbolic literals
# ----------------------------------------------------------------------------------------------------------------------


class ReconModel:
    """lark.reconstruct.Reconstructor as seen by as_text: token stream of the grammar-table model, then lark's own join rule"""

    __symx_model__ = True

    def __init__(self, parser, term_subs=None):
        self.parser = parser

    def _reconstruct(self, tree):
        return iter(ML.model_stream(tree, self.parser))

    def reconstruct(self, tree, postproc=None, insert_spaces=True):
        from lark.utils import is_id_continue

        x = self._reconstruct(tree)
        if postproc is not None:
            x = Interp.cur.call(postproc, [x], {})
        cells = []
        prev = None
        for item in m_iter(x):
            ic = seq_cells(ML.text_of(item), SymStr)
            if insert_spaces and prev and ic:
                a, b = prev[-1], ic[0]
                if not isinstance(a, int) or not isinstance(b, int):
                    raise Unsupported("is_id_continue on a symbolic character")
                if is_id_continue(chr(a)) and is_id_continue(chr(b)):
                    cells.append(32)
            cells.extend(ic)
            prev = ic
        return V.unwrap(SymStr(cells))


ReconModel.reconstruct.__symx_model__ = True


def valid_string_body(ctx, s):
    """constrain symbolic characters to a valid STRING body (lexer rule of the grammar: the closing quote is the first quote
    preceded by an even number of backslashes): no unescaped quote, no trailing odd run of backslashes"""
    run_odd = False  # bool | z3 expr: the current backslash run has odd length
    conds = []
    for c in s.cells:
        if isinstance(c, int):
            isq, isb = c == 34, c == 92
            if isq and not is_true(run_odd):
                if run_odd is False:
                    raise PathAbort()
            run_odd = (not run_odd) if isinstance(run_odd, bool) and isb else (z3.Not(run_odd) if isb else False) if isb else False
            continue
        isq, isb = c == 34, c == 92
        ro = z3.BoolVal(run_odd) if isinstance(run_odd, bool) else run_odd
        conds.append(z3.Implies(isq, ro))  # a quote is only allowed after an odd run (escaped)
        run_odd = z3.simplify(z3.If(isb, z3.Not(ro), z3.BoolVal(False)))
    ro = z3.BoolVal(run_odd) if isinstance(run_odd, bool) else run_odd
    conds.append(z3.Not(ro))
    ctx.assume(mkbool(z3.And(*conds)))


def is_true(x):
    return x is True


def STR(ctx, name, n):
    if is_native():
        s = sym_str(name, n)
        body = V.to_native(s)
        import re
        if not re.fullmatch(r'"(.|\n)*?(?<!\\)(\\\\)*?"', '"%s"' % body, re.S) or re.match(r'"(.|\n)*?(?<!\\)(\\\\)*?"', '"%s"' % body, re.S).end() != len(body) + 2:
            raise PathAbort()
        return lark.Tree("string", [lark.Token("STRING", '"%s"' % body)])
    s = sym_str(name, n)
    valid_string_body(ctx, s)
    return lark.Tree("string", [ML.SymToken("STRING", SymStr([34] + s.cells + [34]))])


def T(label, *children):
    return lark.Tree(label, list(children))


def skeletons(ctx, n, which):
    S = lambda nm: STR(ctx, nm, n)  # noqa: E731
    opt = lambda kw, nm: T("option", lark.Token("OPTION", kw), S(nm))  # noqa: E731
    dt = lambda *steps: T("data_transform", T("steps", *steps[:-1]), T("termination", steps[-1]))  # noqa: E731
    sk = {
        "option": lambda: T("start", opt("useragent", "a")),
        "two options": lambda: T("start", opt("sleeptime", "a"), opt("jitter", "b")),
        "http-get uri+header": lambda: T("start", T("http_get", T("uri", S("a")), T("client", T("header", S("b"), S("c"))))),
        "http-get variant": lambda: T("start", T("http_get", T("variant", S("v")), T("verb", S("a")))),
        "metadata transform": lambda: T("start", T("http_get", T("client", T("metadata", dt(T("base64"), T("prepend", S("a")), T("header", S("b"))))))),
        "server output": lambda: T("start", T("http_post", T("server", T("output", dt(T("mask"), T("append", S("a")), T("print")))))),
        "stage strings": lambda: T("start", T("stage", T("stringw", S("a")), T("transform_x86", T("strrep", S("b"), S("c"))))),
        "process-inject execute": lambda: T("start", T("process_inject", T("execute", T("createthread_special", S("a")), T("rtlcreateuserthread")))),
        "empty block + option": lambda: T("start", T("http_config"), opt("pipename", "a")),
        "repeated identical statements": lambda: T("start", T("option", lark.Token("OPTION", "sleeptime"), T("string", lark.Token("STRING", '"5"'))), T("stage"),
                                                   T("option", lark.Token("OPTION", "sleeptime"), T("string", lark.Token("STRING", '"5"'))), T("stage"), opt("jitter", "a"),
                                                   T("http_get", T("uri", T("string", lark.Token("STRING", '"/x"')))), T("http_get", T("uri", T("string", lark.Token("STRING", '"/x"'))))),
        "beacon gate": lambda: T("start", T("stage", T("beacon_gate", T("comms"), T("virtualalloc")), T("name", S("a")))),
        "dns-beacon": lambda: T("start", T("dns_beacon", T("dns_idle", S("a")), T("beacon", S("b")))),
        "http-stager": lambda: T("start", T("http_stager", T("uri_x64", S("a")), T("server", T("parameter", S("b"), S("c"))))),
        "code-signer + post-ex": lambda: T("start", T("code_signer", T("alias", S("a"))), T("post_ex", T("keylogger", S("b")))),
        "http-beacon": lambda: T("start", T("http_beacon", T("data_required_length", S("a")))),
    }
    return sk[which]()


SKELETONS_Q = ["option", "two options", "http-get uri+header", "http-get variant", "metadata transform", "server output", "stage strings",
               "process-inject execute", "empty block + option", "repeated identical statements"]
# (the `# dns_resolver` production is never lexed — '#' starts a comment — so no skeleton uses it)
SKELETONS_T = SKELETONS_Q + ["beacon gate", "dns-beacon", "http-stager", "code-signer + post-ex", "http-beacon"]


def tokenize(cells):
    """lexer model over (partly symbolic) text -> list of ('STRING', cells) | ('PUNCT', ch) | ('WORD', text); None on a lexing error"""
    out = []
    i = 0
    n = len(cells)

    def is_(c, k):
        return (c == k) if isinstance(c, int) else truth(mkbool(c == k))

    while i < n:
        c = cells[i]
        if not isinstance(c, int):
            return None  # a symbolic character outside a literal: the literal was broken up
        ch = chr(c)
        if ch in " \t\x0c\r\n":
            i += 1
            continue
        if ch == "#":
            # SH_COMMENT up to the end of line — unless it is the '#' keyword of `# dns_resolver` (contextual lexer): the model
            # treats '#' followed by ' dns_resolver' as that keyword
            rest = cells[i + 1:i + 14]
            if all(isinstance(x, int) for x in rest) and "".join(map(chr, rest)).startswith(" dns_resolver"):
                out.append(("WORD", "#"))
                i += 1
                continue
            while i < n and not is_(cells[i], 10):
                i += 1
            continue
        if ch in "{};":
            out.append(("PUNCT", ch))
            i += 1
            continue
        if ch == '"':
            j = i + 1
            run_odd = False
            while j < n:
                cj = cells[j]
                if is_(cj, 34) and not run_odd:
                    break
                run_odd = (not run_odd) if is_(cj, 92) else False
                j += 1
            if j >= n:
                return None
            out.append(("STRING", cells[i:j + 1]))
            i = j + 1
            continue
        j = i
        while j < n and isinstance(cells[j], int) and (chr(cells[j]).isalnum() or chr(cells[j]) in "_-"):
            j += 1
        if j == i:
            return None
        out.append(("WORD", "".join(map(chr, cells[i:j]))))
        i = j
    return out


def h_layout(which, n):
    def body(ctx):
        tree = skeletons(ctx, n, which)
        prof = call(C2Profile)
        prof.tree = tree
        if is_native():
            text = prof.as_text()
            want = [("STRING", list(map(ord, str(t)))) if t.type == "STRING" else ("PUNCT", str(t)) if str(t) in "{};" else ("WORD", str(t))
                    for t in P.lex(" ".join(str(x) for x in c2profile.Reconstructor(P)._reconstruct(tree)))]
        else:
            text = call(I.getattr(prof, "as_text"))
            stream = ML.model_stream(tree, P)
            want = []
            for it in stream:
                cs = seq_cells(ML.text_of(it), SymStr)
                if isinstance(it, (ML.SymToken, lark.Token)) and getattr(it, "type", "") == "STRING":
                    want.append(("STRING", cs))
                elif len(cs) == 1 and chr(cs[0]) in "{};":
                    want.append(("PUNCT", chr(cs[0])))
                else:
                    want.append(("WORD", "".join(map(chr, cs))))
        got = tokenize(seq_cells(text, SymStr))
        ctx.prove(got is not None, "regenerated text lexes (skeleton %s)" % which)
        if got is None:
            return
        ctx.prove(len(got) == len(want), "same number of tokens (%d vs %d)" % (len(got), len(want)))
        for g, w in zip(got, want):
            if w[0] == "STRING":
                ctx.prove(g[0] == "STRING" and deep_eq(SymStr(g[1]), SymStr(w[1])), "string literal preserved character for character")
            else:
                ctx.prove(g == w, "token %r printed as %r" % (w, g))
    return body


def h_from_text(n):
    """from_text hands every string literal to the parser UNCHANGED: the parser (third-party, not encoded) is replaced by a recorder and the
    text it receives must equal the source for every content of a string literal (n symbolic code points, any value: line
    boundaries, control characters, non-ASCII) — whatever from_text does to the text in front of the parser is interpreted"""
    def body(ctx):
        lit = sym_str("lit", n)
        for c in lit.cells:  # a literal body: no quote, no backslash (so the statement is a valid one for every content)
            if not is_native():
                ctx.assume(mkbool(z3.And(c != 34, c != 92)))
            elif c in (34, 92):
                raise PathAbort()
        head = SymStr([ord(c) for c in 'set useragent "'] + lit.cells + [ord(c) for c in '";'])
        src = SymStr(head.cells + [ord(c) for c in '\nhttp-get {\n set uri "/a"; }\n'])
        seen = []
        import lark as _lark

        def rec(parser, text, *a, **k):
            seen.append(text)
            return _lark.Tree("start", [])

        if is_native():
            real = c2profile_parser.parse
            saved = C2P.c2profile_parser
            C2P.c2profile_parser = type("P", (), {"parse": staticmethod(lambda text, *a, **k: rec(None, text))})()
        else:
            I.stubs[_lark.Lark.parse] = rec
        try:
            kind, r = outcome(C2Profile.from_text, V.unwrap(src) if not is_native() else V.to_native(src))
        finally:
            if is_native():
                C2P.c2profile_parser = saved
            else:
                I.stubs.pop(_lark.Lark.parse, None)
        ctx.prove(kind == "ok", "from_text with a stubbed parser returns (%r)" % (r,))
        ctx.prove(len(seen) == 1, "the parser is called exactly once")
        if len(seen) == 1:
            got = as_str(seen[0])
            # (whitespace outside literals is not an observable of the property: only the statement with the literal is compared)
            ctx.prove(len(got.cells) >= len(head.cells) and deep_eq(SymStr(got.cells[:len(head.cells)]), head),
                      "the statement and its string literal reach the parser unchanged")
    return body


def h_string_accepts(n):
    """every literal whose body is valid by the definition (any characters, line feeds included; the closing quote is the first
    quote preceded by an even number of backslashes) is ONE token of the loaded grammar's STRING terminal"""
    def body(ctx):
        from harness import c12 as L
        s = sym_str("body", n)
        if is_native():
            text = '"%s"' % V.to_native(s)
            if L.model_first_close(text) != len(text):
                raise PathAbort()
        else:
            valid_string_body(ctx, s)
        lit = SymStr([34] + s.cells + [34])
        ctx.prove(L.single_token(ctx, lit), "a valid literal of %d characters is accepted as exactly one STRING token" % n)
    return body


def instances(tier):
    q = tier == "quick"
    out = [Instance("grammar table: every production regenerated with its own keywords", h_table(), dict(kind="table", productions=len(RULES)))]
    for n in ((0, 1, 2, 3) if q else (0, 1, 2, 3, 4)):
        out.append(Instance("from_text passes the source to the parser unchanged, literal of %d symbolic characters" % n, h_from_text(n), dict(kind="from_text", chars=n)))
        out.append(Instance("STRING terminal accepts every valid literal body of %d characters" % n, h_string_accepts(n), dict(kind="string_terminal", chars=n), split=8))
    for which in (SKELETONS_Q if q else SKELETONS_T):
        for n in ((1, 2, 3) if q else (1, 2, 3, 4)):
            if q and n == 3 and which not in ("option", "http-get uri+header", "metadata transform"):
                continue
            if n == 4 and which not in ("option", "metadata transform"):
                continue
            out.append(Instance("layout %s literal=%d" % (which, n), h_layout(which, n), dict(kind="layout", skeleton=which, literal_chars=n, cost=9 ** n), split=10))
    for i in out:
        i.native_patches = []
    return out


I.set_override("dissect.cobaltstrike.c2profile", "Reconstructor", ReconModel)


def prechecks(tier, seed):
    """(2) every reachable production through the real parser / tree matcher / lexer; deviations are compared with the table model:
    a sentence the model predicts to survive but that does not (or vice versa) is a model error"""
    rows = table()
    n = 0
    dev = []
    lexer_dead = []
    for r in rows:
        if not (r["reachable"] and r["lookup"]):
            continue
        s = sentence_for(r["idx"])
        if s is None:
            continue
        ok, detail = real_roundtrip(s)
        predicted_ok = rows[r["first"]]["tokens"] == r["tokens"]
        n += 1
        if "HASH" in r["tokens"] and not ok and detail.startswith("Unexpected"):
            # `"#" "dns_resolver" string ";"`: the lexer reads '#...' as a comment, so no accepted profile uses this production
            # (it is outside "every profile accepted by the parser"); recorded, not a deviation
            lexer_dead.append(r["label"])
            continue
        if ok != predicted_ok:
            dev.append(dict(production=r["idx"], label=r["label"], sentence=s, real_ok=ok, model_ok=predicted_ok, detail=detail))
    if dev:
        raise AssertionError("grammar-table model disagrees with the real round trip: %r" % dev[:3])
    # the model token stream equals the real one on a multi-block profile
    text = 'set sleeptime "1"; http-get "v" { set uri "/a"; client { header "A" "b"; metadata { base64; prepend "x"; header "Cookie"; } } } stage { set name "n"; }'
    prof = C2Profile.from_text(text)
    real = [str(x) for x in c2profile.Reconstructor(P)._reconstruct(prof.tree)]
    mine = [str(x) for x in ML.model_stream(prof.tree, P)]
    assert real == mine, "model token stream differs from lark's"
    return dict(validated=n + 1, productions_never_lexed=lexer_dead)
