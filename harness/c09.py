"""C09 — the XorEncoded file view is a faithful read-only file over the decoded bytes (DESIGN.md §4 C09, App. B.3)"""
import io as _io
import itertools

from harness.common import *  # noqa: F401,F403
from symx.values import ModelBytesIO
from dissect.cobaltstrike import xordecode, pe

INFO = dict(
    files=["dissect/cobaltstrike/xordecode.py", "dissect/cobaltstrike/utils.py", "dissect/cobaltstrike/pe.py"],
    bounds=dict(
        quick="histories: plaintext 0..5,7,9 symbolic bytes, symbolic 4-byte nonce, symbolic stub of 0/3 bytes, every op sequence of "
        "length <=2 (and a selection of length 3) over read(n) [n symbolic in -1..L+2], read(), read(None), seek(o, SET|CUR|END) "
        "[o symbolic, target in 0..L+2], tell(); detection: 88..96-byte PE scaffold (symbolic Machine/e_lfanew window, symbolic "
        "nonce) behind stubs of 0/5/9 bytes ending in the ff ff ff marker and/or carrying a consistent size field; fully symbolic "
        "files of 0..10 bytes are rejected (pe.find_mz_offset cut to None, justified by per-(size, offset) lemma obligations of the same check; uncut for 0/5/7 bytes)",
        thorough="plaintext lengths {0..9, 11, 13}, stubs 0/7, all op sequences of length <=2, length 3 on two plaintext/stub combinations, selection of length 4",
    ),
    outside="stages in which the size relation or the ff ff ff marker also holds at an offset BEFORE the true one while the true offset is NOT designated by both hints (ambiguous by construction: the self-synchronising decoding makes such a candidate pass the MZ validation; candidates after the true offset are inside the claim; "
    "stated validity predicate of the detection harness); plaintexts longer than the bound; seeking before the first plaintext byte (undefined for the view); writes; "
    "detection on stages whose decoded content does not start with a PE image within 1024 bytes",
    stubs=["io.BytesIO -> pure model", "dissect.cstruct readers -> generated source interpreted, leaves modelled"],
    assumptions=["z3 decides QF_BV soundly", "file model == CPython BytesIO (validated in C15 prechecks and here)"],
)


def encode(plain, nonce, stub, size_cells=None):
    """independent encoder (App. B.3): stub | nonce | u32le(len) ^ nonce | enc, enc[i] = plain[i] ^ (nonce[i] | enc[i-4])"""
    L = len(plain.cells)
    size = list(L.to_bytes(4, "little")) if size_cells is None else size_cells
    encsize = [z3.simplify(bv(size[i]) ^ bv(nonce.cells[i])) for i in range(4)]
    enc = []
    for i in range(L):
        prev = nonce.cells[i] if i < 4 else enc[i - 4]
        enc.append(z3.simplify(bv(plain.cells[i]) ^ bv(prev)))
    cells = stub.cells + nonce.cells + encsize + enc
    return SymBytes([c.as_long() if (not isinstance(c, int) and z3.is_bv_value(c)) else c for c in cells])


OPS = ("read", "readall", "readnone", "seek_set", "seek_cur", "seek_end", "tell")


def h_hist(L, s, ops):
    def body(ctx):
        plain = sym_bytes("plain", L)
        nonce = sym_bytes("nonce", 4)
        stub = sym_bytes("stub", s)
        raw = ModelBytesIO(encode(plain, nonce, stub))
        xf = call(xordecode.XorEncodedFile, raw, nonce_offset=s)
        t = call(I.getattr(xf, "tell"))
        ctx.prove(compare("==", t, 0), "a fresh view is positioned at plaintext offset 0 (tell() == %r)" % (t,))
        pos = 0
        for k, op in enumerate(ops):
            tag = "history %s step %d" % ("/".join(ops), k)
            if op in ("read", "readall", "readnone"):
                if op == "read":
                    n = concretize(sym_int("n%d" % k, -1, L + 2))
                    got = call(I.getattr(xf, "read"), n)
                elif op == "readall":
                    n = -1
                    got = call(I.getattr(xf, "read"))
                else:
                    n = -1
                    got = call(I.getattr(xf, "read"), None)
                exp = SymBytes(plain.cells[pos:] if n < 0 else plain.cells[pos:pos + n])
                got = as_bytes(got)
                ctx.prove(len(got.cells) == len(exp.cells),
                          "%s: read(%s) at %d returns %d bytes, expected %d" % (tag, n, pos, len(got.cells), len(exp.cells)))
                ctx.prove(got.eq(exp), "%s: read(%s) at %d returns the plaintext slice" % (tag, n, pos))
                pos += len(exp.cells)
            elif op.startswith("seek"):
                if op == "seek_set":
                    o = concretize(sym_int("o%d" % k, 0, L + 2))
                    r = call(I.getattr(xf, "seek"), o)
                    new = o
                elif op == "seek_cur":
                    o = concretize(sym_int("o%d" % k, -pos, L + 2 - pos))
                    r = call(I.getattr(xf, "seek"), o, _io.SEEK_CUR)
                    new = pos + o
                else:
                    o = concretize(sym_int("o%d" % k, -L, 2))
                    r = call(I.getattr(xf, "seek"), o, _io.SEEK_END)
                    new = L + o
                ctx.prove(compare("==", r, new), "%s: %s(%d) returns the new absolute position %d (got %r)" % (tag, op, o, new, r))
                pos = new
            t = call(I.getattr(xf, "tell"))
            ctx.prove(compare("==", t, pos), "%s: tell() == %d after %s (got %r)" % (tag, pos, op, t))
    return body


def h_long(L, ops, W=6):
    """long plaintexts (every byte of the 32-bit size field can be non-zero): the first W bytes symbolic, concrete filler behind;
    seeks and reads inside the first W+2 bytes — the region in which the initial nonce, the size field and the first encoded words
    meet"""
    def body(ctx):
        head = sym_bytes("plain_head", W)
        plain = SymBytes(head.cells + [(i * 11 + 5) & 0xFF for i in range(12)])  # (the first W+12 of the L plaintext bytes)
        nonce = sym_bytes("nonce", 4)
        raw = ModelBytesIO(encode(plain, nonce, SymBytes([0x90, 0x90, 0x90]), list(L.to_bytes(4, "little"))))
        # (the encoded stage is cut behind the first W+12 plaintext bytes: nothing below reads further; the size field says L)
        xf = call(xordecode.XorEncodedFile, raw, nonce_offset=3)
        pos = 0
        for k, op in enumerate(ops):
            tag = "long plaintext (%d bytes) history %s step %d" % (L, "/".join(ops), k)
            if op == "read":
                n = concretize(sym_int("n%d" % k, 0, W + 2 - pos))
                got = as_bytes(call(I.getattr(xf, "read"), n))
                exp = SymBytes(plain.cells[pos:pos + n])
                ctx.prove(len(got.cells) == len(exp.cells) and got.eq(exp), "%s: read(%d) at %d returns the plaintext slice" % (tag, n, pos))
                pos += n
            else:
                o = concretize(sym_int("o%d" % k, 0, W))
                r = call(I.getattr(xf, "seek"), o)
                ctx.prove(compare("==", r, o), "%s: seek(%d) returns %d (got %r)" % (tag, o, o, r))
                pos = o
            t = call(I.getattr(xf, "tell"))
            ctx.prove(compare("==", t, pos), "%s: tell() == %d (got %r)" % (tag, pos, t))
    return body


# --------------------------------------------------------------------------------------------------------- detection
def scaffold(machine_cells, lfanew=64, extra=0, fill=0x11):
    """minimal image accepted by the documented MZ test: 64-byte DOS header with e_lfanew, PE signature, file header"""
    dos = [0x4D, 0x5A] + [fill] * 58 + list(lfanew.to_bytes(4, "little"))
    gap = [fill] * (lfanew - 64)
    filehdr = machine_cells + [2, 0] + [fill] * 16
    return dos + gap + [0x50, 0x45, 0, 0] + filehdr + [fill] * extra


def h_detect(stublen, marker, good_size, mach, nonce_fixed=None, maxrange=None, stray=None):
    """nonce_fixed: None = fully symbolic nonce with the strong validity predicate (single candidate offset);
    a 4-list with None entries for symbolic bytes = crafted stage with stray candidates AFTER the true offset
    (e.g. a nonce beginning ff ff ff), for which only candidates before the true offset are excluded"""
    strict = nonce_fixed is None

    def body(ctx):
        nonce = sym_bytes("nonce", 4)
        if nonce_fixed is not None:
            nonce = SymBytes([c if f is None else f for c, f in zip(nonce.cells, nonce_fixed)])
        m = sym_bytes("machine", 2)
        ctx.assume(m.eq(bytes.fromhex("4c01")) if mach == "x86" else m.eq(bytes.fromhex("6486")))
        plain = SymBytes(scaffold(m.cells))
        if marker:
            stubc = [0x90] * (stublen - 3) + [0xFF, 0xFF, 0xFF]
            if stray is not None:
                # a second ff ff ff (e.g. the displacement of an earlier call instruction) in front of the real end-of-stub marker;
                # the true offset is designated by marker AND size field, the stray one by a marker alone
                assert good_size and stray + 3 < stublen - 3
                stubc[stray:stray + 3] = [0xFF, 0xFF, 0xFF]
        else:
            stubc = [0x90] * stublen
        stub = SymBytes(stubc)
        L = len(plain.cells)
        size_cells = None if good_size else list((L + 7).to_bytes(4, "little"))
        rawb = encode(plain, nonce, stub, size_cells)
        # validity predicate: the hints designate exactly one candidate offset (a stage in which the size relation or
        # the marker also holds at another offset is ambiguous by construction and outside the claim)
        R = len(rawb.cells)
        # (decoys BEFORE the true offset decode to junk followed by the whole image — the rolling XOR is self-synchronising —
        # and pass the MZ validation; decoys AFTER it cannot contain the image start and must simply be skipped)
        for i in range(0, (R - 7) if strict else min(stublen, R - 7)):
            if i == stublen and good_size:
                continue
            dec = 0
            for j in range(4):
                x = z3.simplify(bv(rawb.cells[i + j]) ^ bv(rawb.cells[i + 4 + j]))
                dec = binop("+", dec, binop("*", SymInt.from_byte(x.as_long() if z3.is_bv_value(x) else x), 1 << (8 * j)))
            ctx.assume(compare("!=", binop("+", dec, i + 8), R))
        for i in range(0, (R - 2) if strict else min(stublen, R - 2)):
            if marker and (i == stublen - 3 or i == stray):
                continue
            m = rawb.match_at([0xFF, 0xFF, 0xFF], i)
            ctx.assume(mkbool(z3.Not(m.e)) if isinstance(m, SymBool) else (not m))
        raw = ModelBytesIO(rawb)
        kind, r = outcome(xordecode.XorEncodedFile.from_file, raw, **({} if maxrange is None else dict(maxrange=maxrange)))
        if marker or good_size:
            ctx.prove(kind == "ok", "stage with %s is detected (got %s)" % (
                "marker+size" if marker and good_size else "marker" if marker else "size field", r if kind == "exc" else "ok"))
            if kind == "ok":
                ctx.prove(compare("==", r.nonce_offset, stublen), "detected nonce_offset == end of stub (%d)" % stublen)
                t = call(I.getattr(r, "tell"))
                ctx.prove(compare("==", t, 0), "detected view is positioned at 0")
                got = as_bytes(call(I.getattr(r, "read"), 8))
                ctx.prove(got.eq(SymBytes(plain.cells[:8])), "detected view decodes the image")
        else:
            # neither hint: either rejected, or (if the nonce makes a decoy offset look valid) any accepted view must
            # at least decode to something with a PE header — the property only requires rejection of non-XorEncoded input
            ctx.prove(kind == "ok" or isinstance(r, ValueError), "undetectable stage is rejected with ValueError only")
    return body


def h_lemma(N, k):
    """lemma behind the cut used by the reject instances: over a file of N < 64 bytes a view at any nonce offset
    cannot contain a DOS header plus file header, so pe.find_mz_offset returns None (one obligation per (N, k))"""
    def body(ctx):
        data = sym_bytes("file", N)
        xf = call(xordecode.XorEncodedFile, ModelBytesIO(data), nonce_offset=k)
        r = call(pe.find_mz_offset, xf)
        ctx.prove(r is None, "find_mz_offset on a view over %d bytes at nonce offset %d is None" % (N, k))
    return body


def h_reject(N, maxrange, cut):
    def body(ctx):
        data = sym_bytes("file", N)
        if cut and not is_native():
            I.stubs[pe.find_mz_offset] = lambda *a, **k: None  # lemma-justified cut (h_lemma), symbolic mode only
        try:
            kind, r = outcome(xordecode.XorEncodedFile.from_file, ModelBytesIO(data), maxrange=maxrange)
        finally:
            I.stubs.pop(pe.find_mz_offset, None)
        ctx.prove(kind == "exc" and isinstance(r, ValueError),
                  "a %d-byte input cannot contain a PE image and is rejected with ValueError (got %s %r)" % (N, kind, r))
    return body


def instances(tier):
    q = tier == "quick"
    out = []
    Ls = (0, 1, 2, 3, 4, 5, 7, 9) if q else (0, 1, 2, 3, 4, 5, 6, 7, 8, 9, 11, 13)
    stubs = (0, 3) if q else (0, 7)
    seqs = []
    for k in (1, 2):
        seqs += list(itertools.product(OPS, repeat=k))
    tri = list(itertools.product(OPS, repeat=3))
    if q:
        sel = [t for t in tri if t[0] in ("read", "seek_set") and t[1] in ("read", "seek_cur", "seek_end") and t[2] in ("read", "readall")]
    else:
        sel = tri
    seqs += sel
    if not q:
        seqs += [t for t in itertools.product(("read", "seek_cur", "readall"), repeat=4)]
    for L in Ls:
        for s in stubs:
            for ops in seqs:
                if q and len(ops) == 3 and (L != 5 or s != 3 or ops[:2] == ("read", "read")):
                    continue
                if q and s == 0 and L not in (4, 5, 9):
                    continue
                if q and len(ops) == 2 and L == 9 and ops[0] == "read" and ops[1] == "read" and s == 0:
                    continue
                if not q and len(ops) >= 3 and (L not in (5, 9) or s not in (0, 7)):
                    continue
                if not q and len(ops) == 3 and L == 9 and s == 7:
                    continue
                if len(ops) == 4 and L != 9:
                    continue
                out.append(Instance("hist L=%d stub=%d %s" % (L, s, "/".join(ops)), h_hist(L, s, ops),
                                    dict(kind="history", plain=L, stub=s, ops=list(ops), cost=(L + 4) ** len(ops))))
    for stublen, marker, good in ((0, False, True), (5, True, True), (5, True, False), (9, False, True), (9, False, False)):
        for mach in ("x86", "x64"):
            out.append(Instance("detect stub=%d marker=%s size=%s %s" % (stublen, marker, good, mach),
                                h_detect(stublen, marker, good, mach),
                                dict(kind="detect", stub=stublen, marker=marker, size_ok=good, machine=mach, cost=10 ** 6),
                                split=6, max_loop=3000))
    # crafted stray candidates after the true offset (they fail the MZ validation and must be skipped, not end the search)
    for L in ((0x01020304,) if q else (258, 0x010203, 0x01020304)):
        for ops in (("seek", "read"), ("read", "read")) if q else (("seek", "read"), ("read", "read"), ("seek", "read", "read"), ("read", "seek", "read")):
            out.append(Instance("long plaintext L=%d ops=%s" % (L, "/".join(ops)), h_long(L, ops), dict(kind="long_plaintext", L=L, ops=list(ops), window=6, cost=200), split=6, max_loop=3000))
    for stl, st in (((12, 2),) if q else ((12, 2), (9, 1), (41, 5))):
        out.append(Instance("detect stub=%d marker+size, stray marker at %d" % (stl, st), h_detect(stl, True, True, "x64", stray=st),
                            dict(kind="detect_stray_before", stub=stl, stray_marker_at=st, cost=10 ** 6), split=6, max_loop=3000))
    for stublen, marker, good, nf in ((0, False, True, [0xFF, 0xFF, 0xFF, None]), (4, False, True, [0xFF, 0xFF, 0xFF, None]),
                                      (5, True, False, [None, 0xFF, 0xFF, 0xFF]), (4, False, True, [0x6F, 0x6F, 0x6F, None])):
        out.append(Instance("detect stub=%d marker=%s size=%s stray-after nonce=%s" % (stublen, marker, good, nf),
                            h_detect(stublen, marker, good, "x64", nf),
                            dict(kind="detect_stray", stub=stublen, marker=marker, size_ok=good, nonce=[("sym" if x is None else x) for x in nf], cost=10 ** 6),
                            split=6, max_loop=3000))
    # the nonce offset lies in the last positions of the scan range (size-based candidates exist for every offset < maxrange)
    for mr, stl in (((16, 15), (16, 9), (12, 8)) if q else ((16, 15), (16, 12), (16, 9), (16, 8), (12, 11), (12, 8), (24, 23), (24, 17))):
        out.append(Instance("detect stub=%d size-only maxrange=%d" % (stl, mr), h_detect(stl, False, True, "x86", maxrange=mr),
                            dict(kind="detect_window", stub=stl, maxrange=mr, cost=10 ** 6), split=6, max_loop=3000))
    for N in (range(0, 11) if q else range(0, 13)):
        # the scan range is a public parameter; offsets beyond the file end all behave alike (EOFError -> continue),
        # so a 48-offset range exercises the same code as the default 1024 at a fraction of the interpretation cost
        out.append(Instance("reject N=%d (find_mz_offset cut by lemma)" % N, h_reject(N, 1024, True),
                            dict(kind="reject", file=N, cut="pe.find_mz_offset -> None, justified by the lemma instances", cost=3 ** N),
                            split=8, max_loop=3000))
        for k in range(0, N + 1):
            out.append(Instance("lemma find_mz_offset None N=%d nonce_offset=%d" % (N, k), h_lemma(N, k),
                                dict(kind="lemma", file=N, nonce_offset=k, cost=50), max_loop=3000))
    for N in ((0, 5, 7) if q else (0, 5, 8, 10)):
        out.append(Instance("reject N=%d uncut" % N, h_reject(N, 1024, False), dict(kind="reject", file=N, cut=None, cost=4 ** N),
                            split=8, max_loop=3000))
    return out


def prechecks(tier, seed):
    """harness encoder vs the repo's own sample; interpreter vs CPython on a concrete stage"""
    import random

    rnd = random.Random(seed)
    V.Ctx.cur = V.Ctx()
    n = 0
    for _ in range(20):
        plain = rnd.randbytes(rnd.randrange(0, 40))
        nonce = rnd.randbytes(4)
        stub = rnd.randbytes(rnd.randrange(0, 6))
        raw = V.to_native(encode(SymBytes(list(plain)), SymBytes(list(nonce)), SymBytes(list(stub))))
        # the real decoder, whole-file read from position 0, must give the plaintext back (encoder validation)
        xf = xordecode.XorEncodedFile(_io.BytesIO(raw), nonce_offset=len(stub))
        xf.seek(0)
        assert xf.read() == plain, ("encoder/decoder mismatch", plain, nonce, stub)
        xi = call(xordecode.XorEncodedFile, ModelBytesIO(SymBytes(list(raw))), nonce_offset=len(stub))
        call(I.getattr(xi, "seek"), 0)
        assert V.to_native(as_bytes(call(I.getattr(xi, "read")))) == plain
        n += 2
    return dict(validated=n)
