"""C08 — untrusted input never crashes or hangs the parsers (DESIGN.md §4 C08)"""
import io as _io
import types

from harness.common import *  # noqa: F401,F403
from harness import cfgbuild as CB
from harness import c18 as PEB
from harness import c09 as XE
from symx.values import IoShim, ModelBytesIO, ModelOSFile
from dissect.cobaltstrike import beacon, pe, guardrails, xordecode, artifact, c2, utils
from dissect.cobaltstrike.beacon import BeaconConfig

INFO = dict(
    files=["dissect/cobaltstrike/beacon.py", "dissect/cobaltstrike/pe.py", "dissect/cobaltstrike/guardrails.py",
           "dissect/cobaltstrike/xordecode.py", "dissect/cobaltstrike/artifact.py", "dissect/cobaltstrike/c2.py", "dissect/cobaltstrike/utils.py"],
    bounds=dict(
        quick="(a) every entry point on fully symbolic inputs of 0..8/10 bytes, BytesIO and OS-file models (they differ on negative "
        "seeks); (b) PE scaffolds (x86/x64, 0..2 sections) with one or two header fields fully symbolic at a time — e_lfanew (i32), "
        "NumberOfSections (u16), SizeOfHeaders / SizeOfRawData / PointerToRawData / VirtualAddress / VirtualSize / export RVA (u32) — and "
        "truncated at every structure boundary +-1, through pe.find_* and BeaconConfig.from_bytes; settings blocks with symbolic "
        "index/type/length behind a valid header; Guardrails scanner with the patch sizes scaled to 24/16 through the module namespace: "
        "marker at every offset of a short file, symbolic guard configuration (terminated and unterminated), truncations; XorEncoded "
        "stages with symbolic size field / nonce and truncations; raw HTTP: 'HTTP/'-prefixed and free 8/9-byte messages",
        thorough="fully symbolic inputs up to 9..14 bytes depending on the entry point; more field pairs and truncation points",
    ),
    outside="inputs longer than the bounds with fully symbolic content; Guardrails patch areas at their real size with symbolic content "
    "(scaled through BEACON_CONFIG_PATCH_SIZE / GUARD_PATCH_SIZE, which the code reads as module globals); unbounded looping is decided "
    "against an unwinding bound derived from the input size and confirmed by a wall-clock-bounded native replay",
    stubs=["io.BytesIO / binary file object -> models (OS file: negative position -> OSError)", "cstruct readers -> generated source interpreted",
           "io.BufferedReader(BytesIO).peek -> model", "collections.Counter over symbolic n-grams -> nondeterministic candidate list (find_xor_key_candidates stub, scaffold instances only)"],
    assumptions=["z3 decides QF_BV soundly"],
)

GR = "dissect.cobaltstrike.guardrails"
models_str.CONTRACT_MODE = True  # int(text) / UTF-8 decoding of odd input: "a value or ValueError" (only exception types are decided here)


def ok_outcome(ctx, kind, r, what):
    if kind == "exc" and what.startswith("find_"):
        # the PE artifact helpers document a result or the 'not found' value, no exception at all ("other PE helpers return None")
        ctx.prove(False, "%s: the PE helpers return a result or None, they do not raise (got %s: %s)" % (what, type(r).__name__, str(r)[:80]))
    elif kind == "exc":
        ctx.prove(isinstance(r, ValueError), "%s: only ValueError may escape (got %s: %s)" % (what, type(r).__name__, str(r)[:80]))
    else:
        ctx.prove(True, "%s returns" % what)


def mkfile(data, osfile):
    if is_native():
        if osfile:
            return ModelOSFile(data).to_native()
        return _io.BytesIO(V.to_native(data) if not isinstance(data, (bytes, bytearray)) else bytes(data))
    return (ModelOSFile if osfile else ModelBytesIO)(data)


def drain(f, *a, **k):
    def run():
        return list(call(f, *a, **k))
    try:
        return "ok", run()
    except Exception as e:  # noqa: BLE001
        return "exc", e


ENTRY = {
    "from_bytes": lambda d, osf: outcome(BeaconConfig.from_bytes, V.unwrap(d) if not is_native() else V.to_native(d)),
    "from_bytes(all_xor_keys)": lambda d, osf: outcome(BeaconConfig.from_bytes, V.unwrap(d) if not is_native() else V.to_native(d), all_xor_keys=True),
    "from_file": lambda d, osf: outcome(BeaconConfig.from_file, mkfile(d, osf)),
    "BeaconConfig(block)": lambda d, osf: outcome(BeaconConfig, V.unwrap(d) if not is_native() else V.to_native(d)),
    "XorEncodedFile.from_file": lambda d, osf: outcome(xordecode.XorEncodedFile.from_file, mkfile(d, osf)),
    "find_mz_offset": lambda d, osf: outcome(pe.find_mz_offset, mkfile(d, osf)),
    "find_architecture": lambda d, osf: outcome(pe.find_architecture, mkfile(d, osf)),
    "find_compile_stamps": lambda d, osf: outcome(pe.find_compile_stamps, mkfile(d, osf)),
    "find_magic_mz": lambda d, osf: outcome(pe.find_magic_mz, mkfile(d, osf)),
    "find_magic_pe": lambda d, osf: outcome(pe.find_magic_pe, mkfile(d, osf)),
    "find_stage_prepend_append": lambda d, osf: outcome(pe.find_stage_prepend_append, mkfile(d, osf)),
    "iter_guardrail_configs": lambda d, osf: drain(guardrails.iter_guardrail_configs, mkfile(d, osf)),
    "iter_guardrail_configs_with_beacon": lambda d, osf: drain(guardrails.iter_guardrail_configs_with_beacon, mkfile(d, osf)),
    "iter_artifactkit_payloads": lambda d, osf: drain(artifact.iter_artifactkit_payloads, mkfile(d, osf)),
    "parse_raw_http": lambda d, osf: outcome(c2.parse_raw_http, V.unwrap(d) if not is_native() else V.to_native(d)),
}
PE_ENTRIES = ("find_mz_offset", "find_architecture", "find_compile_stamps", "find_magic_mz", "find_magic_pe", "find_stage_prepend_append")


def scaled(on):
    """Guardrails patch sizes scaled through the module namespace (symbolic mode) / module attributes (native replay)"""
    if is_native():
        return
    if on:
        I.set_override(GR, "BEACON_CONFIG_PATCH_SIZE", 24)
        I.set_override(GR, "GUARD_PATCH_SIZE", 16)
    else:
        I.clear_override(GR, "BEACON_CONFIG_PATCH_SIZE")
        I.clear_override(GR, "GUARD_PATCH_SIZE")


def h_raw(entry, N, osfile, prefix=b""):
    def body(ctx):
        d = SymBytes(list(prefix) + sym_bytes("data", N).cells)
        kind, r = ENTRY[entry](d, osfile)
        ok_outcome(ctx, kind, r, "%s on %d arbitrary bytes" % (entry, N + len(prefix)))
    return body


# ----------------------------------------------------------------------------------------------------------------------
# PE scaffolds
# ----------------------------------------------------------------------------------------------------------------------

FIELDS = ("e_lfanew", "nsections", "size_of_headers", "raw_size", "raw_ptr", "va", "vs", "export_rva", "opt_size", "machine")


def scaffold(ctx, arch, nsec, symbolic):
    """a well-formed image (C18 builder) in which the fields named in `symbolic` are replaced by fully symbolic values"""
    secs = [(0x1000 * (i + 1), 0x40) for i in range(nsec)]
    raws = [[(7 * j + i) & 0xFF for j in range(PEB.RAW)] for i in range(nsec)]
    rva = (secs[-1][0] + 8) if nsec else 0
    if "export_rva" in symbolic:
        rva = sym_int("export_rva", 0, 0xFFFFFFFF)
    if "va" in symbolic and nsec:
        secs[0] = (sym_int("va0", 0, 0xFFFFFFFF), secs[0][1])
    if "vs" in symbolic and nsec:
        secs[0] = (secs[0][0], sym_int("vs0", 0, 0xFFFFFFFF))
    img, lay = PEB.build_image(arch, 64, nsec, b"MZRE", b"PE\0\0", [1, 2, 3, 4], secs, rva, raws)
    img = list(img)

    def put(off, n, name, signed=False):
        v = sym_bytes(name, n)
        img[off:off + n] = v.cells

    if "e_lfanew" in symbolic:
        put(60, 4, "e_lfanew")
    if "machine" in symbolic:
        put(64 + 4, 2, "machine")
    if "nsections" in symbolic:
        put(64 + 4 + 2, 1, "nsections")  # (low byte: every count 0..255; the loop only distinguishes 'more than the file holds')
    if "opt_size" in symbolic:
        put(64 + 4 + 16, 2, "opt_size")
    if "size_of_headers" in symbolic:
        put(64 + 24 + 60, 4, "size_of_headers")
    sh = 64 + 24 + PEB.OPT[arch]
    if "raw_size" in symbolic and nsec:
        put(sh + 16, 4, "raw_size0")
    if "raw_ptr" in symbolic and nsec:
        put(sh + 20, 4, "raw_ptr0")
    return img, lay


def h_pe(entry, arch, nsec, symbolic, cut, osfile=False):
    def body(ctx):
        img, lay = scaffold(ctx, arch, nsec, symbolic)
        if cut is not None:
            img = img[:cut]
        d = SymBytes([0x90, 0x90] + img)
        kind, r = ENTRY[entry](d, osfile)
        ok_outcome(ctx, kind, r, "%s on a %s scaffold (%d sections) with symbolic %s%s" % (
            entry, arch, nsec, "+".join(symbolic) or "nothing", "" if cut is None else " truncated at %d" % cut))
    return body


def pe_cuts(arch, nsec):
    e = 64
    marks = [0, 2, 60, 64, e + 4, e + 24, e + 24 + 60, e + 24 + PEB.DD_OFF[arch], e + 24 + PEB.OPT[arch]]
    for i in range(nsec + 1):
        marks.append(e + 24 + PEB.OPT[arch] + 40 * i)
    total = e + 24 + PEB.OPT[arch] + 40 * nsec + 8 + PEB.RAW * nsec
    marks += [total - PEB.RAW * nsec, total - 30, total]
    out = set()
    for m in marks:
        for d in (-1, 0, 1):
            if 0 <= m + d <= total:
                out.add(m + d)
    return sorted(out)


# ----------------------------------------------------------------------------------------------------------------------
# settings
# ----------------------------------------------------------------------------------------------------------------------


def h_settings(n_tail, via):
    """valid protocol record, then a record with symbolic index/type/length and n_tail symbolic bytes"""
    def body(ctx):
        cells = CB.rec(1, CB.SHORT, CB.u16be(8)) + sym_bytes("hdr", 6).cells + sym_bytes("tail", n_tail).cells
        d = SymBytes(cells)
        if via == "block":
            kind, r = ENTRY["BeaconConfig(block)"](d, False)
        else:
            x = SymBytes([c if isinstance(c, int) and False else c for c in cells])
            key = 0x2E
            enc = SymBytes([(c ^ key) if isinstance(c, int) else (c ^ z3.BitVecVal(key, 8)) for c in cells])
            kind, r = ENTRY["from_bytes"](SymBytes([0x41] * 3 + enc.cells), False)
        ok_outcome(ctx, kind, r, "settings block with a symbolic second record (%d tail bytes) via %s" % (n_tail, via))
        # (the pretty-printing views are not entry points named by the property: a record whose type contradicts its index, e.g.
        # SETTING_DOMAINS with TYPE_SHORT, makes `.settings` raise AttributeError — recorded in DESIGN.md as an observation)
    return body


def h_useragent(n, nul_at):
    """128-byte User-Agent field completely filled, followed by n symbolic bytes (NUL position symbolic / absent)"""
    def body(ctx):
        tail = sym_bytes("tail", n)
        cells = CB.rec(1, CB.SHORT, CB.u16be(8)) + CB.u16be(9) + CB.u16be(3) + CB.u16be(128) + [0x41] * 127 + sym_bytes("last", 1).cells + tail.cells
        kind, r = ENTRY["BeaconConfig(block)"](SymBytes(cells), False)
        ok_outcome(ctx, kind, r, "over-long User-Agent followed by %d symbolic bytes" % n)
    return body


# ----------------------------------------------------------------------------------------------------------------------
# guardrails (scaled)
# ----------------------------------------------------------------------------------------------------------------------


def nondet_key_candidates(fh):
    """stub for guardrails.find_xor_key_candidates (an n-gram frequency heuristic over collections.Counter): an arbitrary
    list of two candidate keys of 2 and 3 arbitrary bytes"""
    return [V.unwrap(sym_bytes(Ctx.cur.fresh("candidate_key"), 2)), V.unwrap(sym_bytes(Ctx.cur.fresh("candidate_key"), 3))]


def h_guard(entry, lead, guard_len, trail, osfile, nsym, sym_cfg=0):
    """file = lead bytes | 24-byte 'masked beacon config' | guard area | trail bytes, with BEACON_CONFIG_PATCH_SIZE=24 and
    GUARD_PATCH_SIZE=16. The marker relation holds at offset lead+18 by construction; the `nsym` guard bytes behind the marker
    (the masked first guard setting: option, type, length, value ...) and the last `sym_cfg` config bytes are symbolic"""
    def body(ctx):
        scaled(True)
        if not is_native():
            I.stubs[guardrails.find_xor_key_candidates] = nondet_key_candidates
        try:
            lead_b = [0x70 + i for i in range(lead)]
            cfg = [(0x31 + 7 * i) & 0xFF for i in range(24 - sym_cfg)] + sym_bytes("masked_cfg_tail", sym_cfg).cells
            guard = [0] * guard_len
            start = bytes(x ^ 0x8A for x in guardrails.GUARD_CONFIG_STARTS[0])
            a = cfg[-6:][::-1]
            for i in range(min(6, guard_len)):
                guard[i] = (a[i] ^ start[i]) if isinstance(a[i], int) else z3.simplify(a[i] ^ z3.BitVecVal(start[i], 8))
            sb = sym_bytes("guard_setting", nsym).cells
            for i in range(nsym):
                if 6 + i < guard_len:
                    guard[6 + i] = sb[i]
            d = SymBytes(lead_b + cfg + guard + [0x55] * trail)
            if entry == "from_bytes":
                kind, r = ENTRY["from_file"](d, osfile)
            else:
                kind, r = ENTRY[entry](d, osfile)
            ok_outcome(ctx, kind, r, "%s on a guard marker at offset %d (guard area %d bytes, %d trailing)" % (entry, lead + 18, guard_len, trail))
        finally:
            scaled(False)
            I.stubs.pop(guardrails.find_xor_key_candidates, None)
    return body


def native_guard_patches():
    return [(guardrails, "BEACON_CONFIG_PATCH_SIZE", 24), (guardrails, "GUARD_PATCH_SIZE", 16)]


# ----------------------------------------------------------------------------------------------------------------------
# XorEncoded stages
# ----------------------------------------------------------------------------------------------------------------------


def h_xorstage(entry, stublen, cut, sym_size):
    def body(ctx):
        img, lay = PEB.build_image("x86", 64, 0, b"MZRE", b"PE\0\0", [1, 2, 3, 4], [], 0, [])
        plain = SymBytes(list(img))
        # (a symbolic nonce would make every encoded byte symbolic and every marker/size test fork: the nonce is concrete here,
        # C09 covers symbolic nonces; the symbolic part is the size field)
        nonce = SymBytes([0x13, 0x57, 0x9B, 0xDF])
        stub = SymBytes([0x90] * (stublen - 3) + [0xFF, 0xFF, 0xFF]) if stublen >= 3 else SymBytes([0x90] * stublen)
        size_cells = sym_bytes("sizefield", 4).cells if sym_size else None
        raw = XE.encode(plain, nonce, stub, size_cells)
        cells = raw.cells if cut is None else raw.cells[:cut]
        kind, r = ENTRY[entry](SymBytes(cells), False)
        ok_outcome(ctx, kind, r, "%s on a XorEncoded stage (stub %d, %s size field)%s" % (
            entry, stublen, "symbolic" if sym_size else "consistent", "" if cut is None else " truncated at %d" % cut))
    return body


def instances(tier):
    q = tier == "quick"
    out = []

    def add(name, body, params, **kw):
        inst = Instance(name, body, params, **kw)
        inst.unwind_is_violation = True
        out.append(inst)
        return inst

    # (a) fully symbolic
    sizes = {"parse_raw_http": (0, 3, 6, 8) if q else (0, 3, 6, 8, 9),
             "BeaconConfig(block)": (0, 1, 5, 6, 7, 8, 10) if q else range(0, 12),
             "iter_artifactkit_payloads": (0, 3, 4, 8, 12) if q else (0, 3, 4, 8, 12, 16, 20),
             "iter_guardrail_configs": (0, 5, 6, 7, 11, 12, 13) if q else range(0, 15),
             "iter_guardrail_configs_with_beacon": (0, 6, 12, 13) if q else (0, 6, 11, 12, 13, 14),
             "from_bytes": (0, 6, 7) if q else (0, 6, 7, 8, 9),
             "from_file": (0, 7, 8) if q else (0, 7, 8, 9),
             "from_bytes(all_xor_keys)": (0, 6) if q else (0, 7),
             "XorEncodedFile.from_file": (0, 7, 8, 9) if q else (0, 7, 8, 9, 10)}
    for e in PE_ENTRIES:
        sizes[e] = (0, 8) if q else (0, 1, 8, 12)
    for e, Ns in sizes.items():
        for N in Ns:
            for osf in ((False, True) if e not in ("parse_raw_http", "BeaconConfig(block)", "from_bytes", "from_bytes(all_xor_keys)") else (False,)):
                if osf and q and e in PE_ENTRIES:
                    continue
                add("raw %s N=%d %s" % (e, N, "osfile" if osf else "bytesio"), h_raw(e, N, osf),
                    dict(kind="raw", entry=e, N=N, file="os" if osf else "BytesIO", cost=3 ** N), split=8, max_loop=3000 + 40 * N)
    for N in ((3, 4) if q else (3, 4, 5, 6)):
        add("raw parse_raw_http 'HTTP/'+%d" % N, h_raw("parse_raw_http", N, False, b"HTTP/"), dict(kind="raw_http", N=N, cost=4 ** N), split=8)
    add("raw parse_raw_http 'HTTP/1.1 '+4+CRLFCRLF", lambda ctx: h_raw("parse_raw_http", 4, False, b"HTTP/1.1 ")(ctx), dict(kind="raw_http_status"), split=8)

    # (b) PE scaffolds
    field_sets = [(), ("e_lfanew",), ("nsections",), ("size_of_headers",), ("raw_size",), ("raw_ptr",), ("export_rva",), ("va", "vs"),
                  ("machine",), ("opt_size",), ("export_rva", "raw_ptr"), ("nsections", "size_of_headers")]
    if not q:
        field_sets += [("e_lfanew", "machine"), ("va", "export_rva"), ("vs", "export_rva"), ("raw_size", "size_of_headers")]
    for arch in ("x86", "x64"):
        for fs in field_sets:
            nsec = 1 if any(f in fs for f in ("raw_size", "raw_ptr", "va", "vs")) or q else 2
            if q and arch == "x64" and fs not in ((), ("nsections",), ("export_rva",), ("e_lfanew",)):
                continue
            for e in ("find_compile_stamps", "find_stage_prepend_append", "find_magic_pe", "find_magic_mz", "find_architecture"):
                if fs and e in ("find_magic_mz", "find_architecture") and fs != ("e_lfanew",):
                    continue
                if q and fs == ("e_lfanew",) and (arch == "x64") != (e in ("find_magic_mz", "find_stage_prepend_append")):
                    continue
                if e == "find_magic_pe" and fs not in ((), ("e_lfanew",)):
                    continue
                add("pe %s %s sections=%d symbolic=%s" % (e, arch, nsec, "+".join(fs) or "none"), h_pe(e, arch, nsec, fs, None),
                    dict(kind="pe_fields", entry=e, arch=arch, sections=nsec, symbolic=list(fs), cost=400), split=10, max_loop=3000)
        # truncations of the valid image
        nsec = 1
        cuts = pe_cuts(arch, nsec)
        if q:
            cuts = cuts[::2] if arch == "x64" else cuts
        for c in cuts:
            for e in ("find_compile_stamps", "find_stage_prepend_append"):
                add("pe %s %s truncated at %d" % (e, arch, c), h_pe(e, arch, nsec, (), c), dict(kind="pe_trunc", entry=e, arch=arch, cut=c, cost=30),
                    max_loop=3000)
        for c in (cuts[::3] if q else cuts):
            add("pe from_bytes %s truncated at %d" % (arch, c), h_pe("from_bytes", arch, nsec, (), c), dict(kind="pe_trunc", entry="from_bytes", arch=arch, cut=c, cost=200),
                max_loop=4000)
    for fs in (("e_lfanew",), ("nsections",), ("export_rva",), ("size_of_headers",)):
        add("pe from_file(osfile) x86 symbolic=%s" % "+".join(fs), h_pe("from_file", "x86", 1, fs, None, True),
            dict(kind="pe_fields", entry="from_file", symbolic=list(fs), cost=1000), split=10, max_loop=4000)

    # settings
    for n in ((0, 1, 2, 4) if q else (0, 1, 2, 3, 4, 6)):
        add("settings symbolic record tail=%d (block)" % n, h_settings(n, "block"), dict(kind="settings", tail=n, cost=5 ** n), split=8)
    add("settings symbolic record tail=2 (from_bytes, key 0x2e)", h_settings(2, "from_bytes"), dict(kind="settings", tail=2, via="from_bytes", cost=500), split=8,
        max_loop=4000)
    for n in ((0, 1, 3) if q else (0, 1, 2, 3, 5)):
        add("settings over-long user-agent +%d" % n, h_useragent(n, None), dict(kind="useragent", tail=n, cost=3 ** n), max_loop=600)

    # guardrails, scaled patch sizes
    for e in ("iter_guardrail_configs", "iter_guardrail_configs_with_beacon", "from_bytes"):
        combos = [(0, 16, 0, 6 if e != "from_bytes" or not q else 3, 0), (0, 8, 0, 2, 0), (2, 16, 2, 4, 0), (0, 6, 0, 0, 3), (0, 16, 0, 2, 3)]
        if not q:
            combos += [(1, 16, 0, 8, 0), (3, 12, 0, 6, 0), (0, 16, 6, 4, 4), (0, 10, 0, 4, 0), (0, 7, 0, 1, 0)]
        for lead, glen, trail, nsym, symcfg in combos:
            for osf in (False, True):
                if e == "from_bytes" and q and ((lead, glen) not in ((0, 16), (2, 16)) or (symcfg and osf)):
                    continue
                i = add("guard %s lead=%d guard=%d trail=%d sym=%d+%d %s" % (e, lead, glen, trail, nsym, symcfg, "osfile" if osf else "bytesio"),
                        h_guard(e, lead, glen, trail, osf, nsym, symcfg),
                        dict(kind="guard", entry=e, lead=lead, guard_len=glen, trail=trail, symbolic_guard_bytes=nsym, symbolic_cfg_bytes=symcfg,
                             file="os" if osf else "BytesIO", cost=2000), split=10, max_loop=3000)
                i.native_patches = native_guard_patches()

    # XorEncoded stages
    total = len(XE.encode(SymBytes(list(PEB.build_image("x86", 64, 0, b"MZRE", b"PE\0\0", [1, 2, 3, 4], [], 0, [])[0])), SymBytes([1, 2, 3, 4]), SymBytes([0x90] * 5)).cells)
    for e in ("XorEncodedFile.from_file", "from_bytes"):
        add("xorstage %s symbolic size field" % e, h_xorstage(e, 5, None, True), dict(kind="xorstage", entry=e, symbolic="size field + nonce", cost=3000), split=10, max_loop=4000)
        for c in ((4, 9, 12, 13, 14, 80, total - 1) if q else (0, 4, 5, 8, 9, 12, 13, 14, 40, 76, 80, 100, total - 40, total - 1)):
            add("xorstage %s truncated at %d" % (e, c), h_xorstage(e, 5, c, False), dict(kind="xorstage", entry=e, cut=c, cost=500), split=10, max_loop=4000)
    return out


def prechecks(tier, seed):
    """the scaffolds are what they claim to be for the real parser; scaled guard scaffold really hits the marker branch"""
    V.Ctx.cur = V.Ctx()
    n = 0
    for arch in ("x86", "x64"):
        img, lay = scaffold(V.Ctx.cur, arch, 1, ())
        data = bytes([0x90, 0x90] + img)
        assert pe.find_mz_offset(_io.BytesIO(data)) == 2 and pe.find_architecture(_io.BytesIO(data)) == arch
        assert pe.find_compile_stamps(_io.BytesIO(data))[0] == 0x04030201
        n += 2
    saved = guardrails.BEACON_CONFIG_PATCH_SIZE, guardrails.GUARD_PATCH_SIZE
    guardrails.BEACON_CONFIG_PATCH_SIZE, guardrails.GUARD_PATCH_SIZE = 24, 16
    try:
        cfg = bytes(range(24))
        start = bytes(x ^ 0x8A for x in guardrails.GUARD_CONFIG_STARTS[0])
        g6 = bytes(a ^ b for a, b in zip(cfg[-6:][::-1], start))
        # a terminated guard configuration: after unmasking the bytes behind the marker must read 00 00
        unmasked_rest = bytes([0, 2, 0, 0]) + bytes(6)
        rev = cfg[::-1]
        rest = bytes(u ^ r ^ 0x8A for u, r in zip(unmasked_rest, rev[6:16]))
        got = list(guardrails.iter_guardrail_configs(_io.BytesIO(cfg + g6 + rest)))
        assert len(got) >= 1 and got[0].guard_config_offset == 24, got
        n += 1
    finally:
        guardrails.BEACON_CONFIG_PATCH_SIZE, guardrails.GUARD_PATCH_SIZE = saved
    return dict(validated=n)
