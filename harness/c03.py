"""C03 — structured settings decode Cobalt Strike's binary encodings exactly (DESIGN.md §4 C03, App. B.2)"""
import hashlib as _hashlib
import itertools

from harness.common import *  # noqa: F401,F403
from symx import models_crypto as MC
from dissect.cobaltstrike import beacon
from dissect.cobaltstrike.beacon import BeaconSetting as BS, BeaconConfig, TransformStep, InjectExecutor

MC.install()

INFO = dict(
    files=["dissect/cobaltstrike/beacon.py"],
    bounds=dict(
        quick="every setting observed through BeaconConfig(block).settings / convenience properties, block built by an independent "
        "encoder: transform programs (http-get and http-post client) of <=2 steps over the 15 defined opcodes with argument lengths "
        "{0,1,3} of symbolic bytes and BUILD argument 0/1; recover programs of <=2 steps with symbolic 32-bit lengths; execute lists of "
        "<=2 entries incl. CreateThread_/CreateRemoteThread_ with symbolic 16-bit offset and symbolic ASCII module/function names of "
        "<=2 chars (+NUL padding); process-inject transforms with 0..2 byte arguments; section tables of 1 symbolic pair (+ concrete pairs incl. the (0,0) terminator rule); "
        "pivot frames with 0..3 byte header; NUL-terminated strings of <=5 symbolic bytes for all 18 string settings; hex settings; "
        "public-key digest; DNS idle address (symbolic u32); BOF allocator; BeaconGate with 7 symbolic flags at a time over 4 "
        "backgrounds; kill date from a symbolic 8-digit value; protocol/port/watermark/trial flag/sleep/jitter; "
        "domain/URI pairs from symbolic names",
        thorough="programs of <=3 steps, execute lists of <=3 entries, names <=3 chars, 2 symbolic section pairs, strings <=7 bytes, BeaconGate 9 "
        "symbolic flags",
    ),
    outside="the legacy year/month/day kill date (indices 16/17 are re-assigned to BOF_ALLOCATOR/SYSCALL_METHOD in the current "
    "enum, so those names never resolve; observation recorded in DESIGN.md, not claimed either way); an empty or odd-length DOMAINS "
    "list; ill-formed encodings (STRREP / unknown opcodes, BUILD arguments other than 0/1, lengths pointing past the data, pivot "
    "length < 4); programs longer than the bound; the SHA-256 digest value itself (uninterpreted; only its argument is checked); "
    "BeaconProtocol flag combinations (cstruct's own flag naming)",
    stubs=["hashlib.sha256 -> uninterpreted function", "ipaddress.IPv4Address -> dotted-quad rendering model",
           "cstruct Setting/BeaconGateOptions readers -> generated source interpreted", "io.BytesIO -> pure model",
           "str.format / f-string specs -> decimal/hex rendering model (validated against CPython each run); decimal digits are defined by the linear relation value == sum digit_i*10^i, and str(int(digits)) is the identity via a provenance registry (BV solvers do not decide 8-digit uniqueness; measured)"],
    assumptions=["z3 decides QF_BV soundly"],
)

PTR, SHORT, INT = 3, 1, 2


def u32be(n):
    return list(n.to_bytes(4, "big"))


def u32be_sym(v):
    if isinstance(v, int):
        return u32be(v)
    return [V.as_cell(binop("%", binop("//", v, 256 ** i), 256), 8) for i in (3, 2, 1, 0)]


def u32le_sym(v):
    return u32be_sym(v)[::-1]


def make_cfg(records):
    data = []
    for idx, typ, val in records:
        data += [idx >> 8, idx & 255, 0, typ, len(val) >> 8, len(val) & 255] + list(val)
    data += [0, 0]
    return call(BeaconConfig, V.unwrap(SymBytes(data)))


def pretty(idx, typ, val):
    cfg = make_cfg([(idx, typ, val)])
    s = I.getattr(cfg, "settings")
    name = BS(idx).name
    return cfg, s[name]


# ------------------------------------------------------------------------------------------------ transform programs
ARG_OPS = ("_HEADER", "HEADER", "PARAMETER", "_PARAMETER", "_HOSTHEADER", "APPEND", "PREPEND")
FLAG_OPS = ("BASE64", "BASE64URL", "NETBIOS", "NETBIOSU", "URI_APPEND", "PRINT", "MASK")
ARGLENS = (1, 0, 3)


def h_transform(idx, ops, terminated):
    build0 = "metadata" if idx == BS.SETTING_C2_REQUEST.value else "id"

    def body(ctx):
        prog, exp = [], []
        for i, op in enumerate(ops):
            code = TransformStep[op].value
            prog += u32be(code)
            if op in ARG_OPS:
                arg = sym_bytes("arg%d" % i, ARGLENS[i % 3])
                prog += u32be(len(arg.cells)) + arg.cells
                exp.append((op, arg))
            elif op == "BUILD":
                b = sym_int("build%d" % i, 0, 1)
                prog += u32be_sym(b)
                exp.append((op, "output" if truth(compare("==", b, 1)) else build0))
            else:
                exp.append((op, True))
        if terminated:
            prog += u32be(0) + [0xAA] * terminated
        _, got = pretty(idx, PTR, prog)
        ctx.prove(isinstance(got, list) and len(got) == len(exp), "decoded program has exactly the encoded steps (%r)" % (got,))
        for g, e in zip(got, exp):
            ctx.prove(deep_eq(g[0], e[0]), "step name %s" % e[0])
            ctx.prove(deep_eq(as_bytes(g[1]), e[1]) if isinstance(e[1], SymBytes) else (g[1] is True if e[1] is True else deep_eq(g[1], e[1])),
                      "step argument of %s exact" % e[0])
    return body


REC_OPS = {"append": 1, "prepend": 2, "base64": 3, "print": 4, "netbios": 8, "netbiosu": 11, "base64url": 13, "mask": 15}


def h_recover(ops, terminated):
    def body(ctx):
        prog, exp = [], []
        for i, op in enumerate(ops):
            prog += u32be(REC_OPS[op])
            if op in ("append", "prepend"):
                n = sym_int("len%d" % i, 0, 0xFFFFFFFF)
                prog += u32be_sym(n)
                exp.append((op, n))
            else:
                exp.append((op, True))
        if terminated:
            prog += u32be(0) + [0x55] * terminated
        _, got = pretty(BS.SETTING_C2_RECOVER.value, PTR, prog)
        ctx.prove(isinstance(got, list) and len(got) == len(exp), "decoded recover program has exactly the encoded steps")
        for g, e in zip(got, exp):
            ctx.prove(deep_eq(g[0], e[0]), "recover step name %s" % e[0])
            ctx.prove(g[1] is True if e[1] is True else deep_eq(g[1], e[1]), "recover step argument exact")
    return body


# ------------------------------------------------------------------------------------------------ execute list
def ascii_nonnul(ctx, b):
    for c in b.cells:
        if isinstance(c, int):
            if not 1 <= c <= 127:
                raise PathAbort()
        else:
            ctx.assume(mkbool(z3.And(z3.UGE(c, 1), z3.ULE(c, 127))))


def h_execute(entries, namelen, pad):
    def body(ctx):
        data, exp = [], []
        for i, ex in enumerate(entries):
            member = InjectExecutor(ex)
            data.append(ex)
            if ex in (6, 7):
                off = sym_int("off%d" % i, 0, 0xFFFF)
                mod = sym_bytes("mod%d" % i, namelen)
                fn = sym_bytes("fn%d" % i, namelen)
                ascii_nonnul(ctx, mod)
                ascii_nonnul(ctx, fn)
                hi = V.as_cell(binop("//", off, 256), 8)
                lo = V.as_cell(binop("%", off, 256), 8)
                data += [hi, lo] + u32be(namelen + pad) + mod.cells + [0] * pad + u32be(namelen + pad) + fn.cells + [0] * pad
                name = member.name.rstrip("_")
                text = [ord(c) for c in name + ' "'] + [c if isinstance(c, int) else z3.ZeroExt(13, c) for c in mod.cells] + [ord("!")] + \
                    [c if isinstance(c, int) else z3.ZeroExt(13, c) for c in fn.cells]
                if truth(compare("!=", off, 0)):
                    text += [ord(c) for c in "+0x"] + seq_cells(models_str.int_to_hex(off), SymStr)
                text += [ord('"')]
                exp.append(SymStr(text))
            else:
                exp.append(member.name)
        data.append(0)
        data += [0x33]  # bytes after the terminator are ignored
        _, got = pretty(BS.SETTING_PROCINJ_EXECUTE.value, PTR, data)
        ctx.prove(isinstance(got, list) and len(got) == len(exp), "execute list has exactly the encoded entries (%r)" % (got,))
        for g, e in zip(got, exp):
            ctx.prove(deep_eq(as_str(g), as_str(e)), "execute entry rendered exactly")
    return body


def h_procinj(idx, la, lp):
    def body(ctx):
        a, p = sym_bytes("app", la), sym_bytes("pre", lp)
        data = u32be(la) + a.cells + u32be(lp) + p.cells
        _, got = pretty(idx, PTR, data)
        ctx.prove(isinstance(got, list) and len(got) == 2, "process-inject transform has append and prepend")
        if len(got) == 2:
            ctx.prove(got[0][0] == "append" and deep_eq(as_bytes(got[0][1]), a), "append argument exact")
            ctx.prove(got[1][0] == "prepend" and deep_eq(as_bytes(got[1][1]), p), "prepend argument exact")
    return body


def h_gargle(n, fixed=()):
    def body(ctx):
        data, exp = [], []
        for i in range(n + len(fixed)):
            if i >= n:
                s, e = fixed[i - n]
            else:
                s, e = sym_int("start%d" % i, 0, 0xFFFFFFFF), sym_int("end%d" % i, 0, 0xFFFFFFFF)
            data += u32le_sym(s) + u32le_sym(e)
            z = compare("==", s, 0)
            z2 = compare("==", e, 0)
            if truth(z) and truth(z2):
                continue
            exp.append(SymStr([48, 120] + seq_cells(models_str.int_to_hex(s), SymStr) + [45, 48, 120] + seq_cells(models_str.int_to_hex(e), SymStr)))
        _, got = pretty(BS.SETTING_GARGLE_SECTIONS.value, PTR, data)
        ctx.prove(isinstance(got, list) and len(got) == len(exp), "section table lists exactly the non-(0,0) pairs")
        for g, e in zip(got, exp):
            ctx.prove(deep_eq(as_str(g), e), "section rendered as 0xstart-0xend")
    return body


def h_pivot(idx, m):
    def body(ctx):
        hdr = sym_bytes("hdr", m)
        extra = sym_bytes("extra", 2)
        n = m + 4
        data = [n >> 8, n & 255] + hdr.cells + extra.cells
        _, got = pretty(idx, PTR, data)
        ctx.prove(deep_eq(as_bytes(got), hdr), "pivot frame header == the n-4 bytes after the length")
    return body


STRING_SETTINGS = [k.value for k, f in beacon.SETTING_TO_PRETTYFUNC.items() if f is beacon.null_terminated_str]


def h_string(idx, L):
    def body(ctx):
        v = sym_bytes("v", L)
        _, got = pretty(idx, PTR, v.cells)
        cut = L
        for i, c in enumerate(v.cells):
            if truth(compare("==", SymInt.from_byte(c), 0)):
                cut = i
                break
        exp = SymStr([c if isinstance(c, int) else z3.ZeroExt(13, c) for c in v.cells[:cut]])
        ctx.prove(deep_eq(as_str(got), exp), "string setting == bytes before the first NUL (latin-1)")
    return body


def h_hex(idx, L):
    def body(ctx):
        v = sym_bytes("v", L)
        _, got = pretty(idx, PTR, v.cells)
        cells = []
        for c in v.cells:
            for nib in (z3.LShR(bv(c), 4), bv(c) & 15):
                n21 = z3.ZeroExt(13, nib)
                cells.append(z3.simplify(z3.If(z3.ULT(nib, 10), n21 + 48, n21 + 87)))
        cells = [c.as_long() if z3.is_bv_value(c) else c for c in cells]
        ctx.prove(deep_eq(as_str(got), SymStr(cells)), "hex setting == lower-case hex of the value")
    return body


def h_pubkey(L, pad):
    def body(ctx):
        env = MC.new_env() if not is_native() else None
        der = sym_bytes("der", L)
        if L:
            last = der.cells[-1]
            ctx.assume(mkbool(bv(last) != 0) if not isinstance(last, int) else last != 0)
        cfg, got = pretty(BS.SETTING_PUBKEY.value, PTR, der.cells + [0] * pad)
        if is_native():
            exp = _hashlib.sha256(V.to_native(der)).hexdigest()
        else:
            exp = env.sha.apply([der], 32).hex()
        ctx.prove(deep_eq(as_str(got), as_str(exp)), "public key digest == SHA-256 over the key with trailing NULs stripped")
        ctx.prove(deep_eq(as_bytes(I.getattr(cfg, "public_key")), der), "public_key property == key with trailing NULs stripped")
    return body


def h_dnsidle():
    def body(ctx):
        ip = sym_int("ip", 0, 0xFFFFFFFF)
        _, got = pretty(BS.SETTING_DNS_IDLE.value, INT, u32be_sym(ip))
        cells = []
        for i in (3, 2, 1, 0):
            if cells:
                cells.append(46)
            o = binop("%", binop("//", ip, 256 ** i), 256)
            cells += seq_cells(models_str.int_to_str(o) if not isinstance(o, int) else str(o), SymStr)
        ctx.prove(deep_eq(as_str(got), SymStr(cells)), "DNS idle address rendered as dotted quad of the big-endian u32")
    return body


def h_bof():
    def body(ctx):
        v = sym_int("alloc", 0, 0xFFFF)
        _, got = pretty(BS.SETTING_BOF_ALLOCATOR.value, SHORT, [V.as_cell(binop("//", v, 256), 8), V.as_cell(binop("%", v, 256), 8)])
        k = concretize(v) if isinstance(v, SymInt) and truth(compare("<=", v, 2)) else v
        if isinstance(k, int) and k <= 2:
            ctx.prove(got == ["VirtualAlloc", "MapViewOfFile", "HeapAlloc"][k], "BOF allocator name")
        else:
            ctx.prove(got is None, "unknown BOF allocator has no name")
    return body


GATE_FIELDS = [f.name for f in beacon.BeaconGateOptions.__fields__]
COMMS = {"InternetOpenA", "InternetConnectA"}
CLEANUP = {"ExitThread"}
CORE = set(GATE_FIELDS) - COMMS - CLEANUP


def h_gate(symbolic, background):
    """`symbolic`: names of the flags that are symbolic bytes; the others take `background` (0/1 per group)"""
    def body(ctx):
        vals = {}
        for n in GATE_FIELDS:
            if n in symbolic:
                vals[n] = sym_bytes("f_" + n, 1).cells[0]
            else:
                grp = "comms" if n in COMMS else "cleanup" if n in CLEANUP else "core"
                vals[n] = background[grp]
        _, got = pretty(BS.SETTING_BEACON_GATE.value, PTR, [vals[n] for n in GATE_FIELDS])
        on = set()
        for n in GATE_FIELDS:
            c = vals[n]
            if (c != 0) if isinstance(c, int) else truth(mkbool(c != 0)):
                on.add(n)
        ctx.prove(isinstance(got, list) and len(set(got)) == len(got), "no group or API is listed twice (%r)" % (got,))
        expanded = set()
        for g in got:
            if g == "All":
                expanded |= set(GATE_FIELDS)
            elif g == "Comms":
                expanded |= COMMS
            elif g == "Core":
                expanded |= CORE
            elif g == "Cleanup":
                expanded |= CLEANUP
            else:
                ctx.prove(g in GATE_FIELDS, "listed API %r is a BeaconGate API" % (g,))
                expanded.add(g)
        ctx.prove(expanded == on, "groups + APIs expand to exactly the enabled flags (%r vs %r)" % (sorted(expanded), sorted(on)))
        # the API *groups* are part of the decoded value: a completely enabled group is reported by its group name (All when
        # everything is enabled), not as loose APIs
        if isinstance(got, list) and expanded == on:
            if on == set(GATE_FIELDS):
                ctx.prove(got == ["All"], "all 23 flags -> ['All'] (got %r)" % (got,))
            else:
                for gname, members in (("Comms", COMMS), ("Core", CORE), ("Cleanup", CLEANUP)):
                    if members <= on:
                        ctx.prove(gname in got and not (set(got) & members), "completely enabled group %s is reported as a group (got %r)" % (gname, got))
                    else:
                        ctx.prove(gname not in got, "incomplete group %s is not reported (got %r)" % (gname, got))
    return body


def h_killdate_int():
    def body(ctx):
        # the eight decimal digits are the symbolic inputs; the stored u32 is their value
        ds = [sym_int("digit%d" % i, 0, 9) for i in range(8)]
        ctx.assume(compare(">=", ds[0], 1))
        kd = 0
        for d in ds:
            kd = binop("+", binop("*", kd, 10), d)
        cells = [48 + d if isinstance(d, int) else z3.simplify(z3.ZeroExt(21 - d.w, d.e) + 48) for d in ds]
        if isinstance(kd, SymInt):
            models_str.register_decimal(kd, cells)
        cfg = make_cfg([(BS.SETTING_KILLDATE.value, INT, u32be_sym(kd))])
        got = I.getattr(cfg, "killdate")
        ctx.prove(deep_eq(as_str(got), SymStr(cells[:4] + [45] + cells[4:6] + [45] + cells[6:8])), "kill date == YYYY-MM-DD of the 8-digit value")
    return body


def h_killdate_ymd():
    def body(ctx):
        y, m, d = sym_int("year", 0, 9999), sym_int("month", 0, 99), sym_int("day", 0, 99)
        recs = [(BS.SETTING_KILLDATE_YEAR.value, SHORT, [V.as_cell(binop("//", y, 256), 8), V.as_cell(binop("%", y, 256), 8)]),
                (17, SHORT, [0, V.as_cell(m, 8)]), (BS.SETTING_KILLDATE_DAY.value, SHORT, [0, V.as_cell(d, 8)])]
        cfg = make_cfg(recs)
        got = I.getattr(cfg, "killdate")
        allset = truth(compare("!=", y, 0)) and truth(compare("!=", m, 0)) and truth(compare("!=", d, 0))
        if not allset:
            ctx.prove(got is None, "kill date is None unless year, month and day are all set")
            return
        def pad2(v):
            c = seq_cells(models_str.int_to_str(v) if not isinstance(v, int) else str(v), SymStr)
            return [48] * (2 - len(c)) + c
        ctx.prove(deep_eq(as_str(got), SymStr(pad2(y) + [45] + pad2(m) + [45] + pad2(d))), "kill date from year/month/day, zero padded to 2")
    return body


def h_scalars():
    def body(ctx):
        port, wm, sl, ji = sym_int("port", 0, 0xFFFF), sym_int("wm", 0, 0xFFFFFFFF), sym_int("sleep", 0, 0xFFFFFFFF), sym_int("jitter", 0, 0xFFFF)
        cs = sym_int("crypto", 0, 0xFFFF)
        def s16(v):
            return [V.as_cell(binop("//", v, 256), 8), V.as_cell(binop("%", v, 256), 8)]
        recs = [(BS.SETTING_PORT.value, SHORT, s16(port)), (BS.SETTING_SLEEPTIME.value, INT, u32be_sym(sl)),
                (BS.SETTING_JITTER.value, SHORT, s16(ji)), (BS.SETTING_CRYPTO_SCHEME.value, SHORT, s16(cs)),
                (BS.SETTING_WATERMARK.value, INT, u32be_sym(wm))]
        cfg = make_cfg(recs)
        ctx.prove(deep_eq(I.getattr(cfg, "port"), port), "port")
        ctx.prove(deep_eq(I.getattr(cfg, "watermark"), wm), "watermark")
        ctx.prove(deep_eq(I.getattr(cfg, "sleeptime"), sl), "sleeptime")
        ctx.prove(deep_eq(I.getattr(cfg, "jitter"), ji), "jitter")
        ctx.prove(iff(I.getattr(cfg, "is_trial"), compare("==", cs, 1)), "is_trial <=> crypto scheme == CRYPTO_TRIAL_PRODUCT")
        empty = make_cfg([])
        ctx.prove(I.getattr(empty, "port") is None and I.getattr(empty, "watermark") is None and I.getattr(empty, "protocol") is None
                  and I.getattr(empty, "killdate") is None and not truth(I.getattr(empty, "is_trial")), "absent settings give None / False")
    return body


def h_protocol():
    def body(ctx):
        for v, name in ((0, "http"), (1, "dns"), (2, "smb"), (4, "tcp"), (8, "https"), (16, "bind")):
            cfg = make_cfg([(BS.SETTING_PROTOCOL.value, SHORT, [0, v])])
            ctx.prove(I.getattr(cfg, "protocol") == name, "protocol %d is %s" % (v, name))
    return body


def h_domains(npairs, L):
    def body(ctx):
        names = []
        text = []
        for i in range(2 * npairs):
            s = sym_bytes("n%d" % i, L)
            for c in s.cells:
                if isinstance(c, int):
                    if c in (0, 44) or c > 127:
                        raise PathAbort()
                else:
                    ctx.assume(mkbool(z3.And(c != 0, c != 44, z3.ULE(c, 127))))
            names.append(s)
            if text:
                text.append(44)
            text += s.cells
        cfg = make_cfg([(BS.SETTING_DOMAINS.value, PTR, text + [0, 0])])
        pairs = I.getattr(cfg, "domain_uri_pairs")
        ctx.prove(len(pairs) == npairs, "one (domain, uri) pair per two names")
        def st(b):
            return SymStr([c if isinstance(c, int) else z3.ZeroExt(13, c) for c in b.cells])
        for i, p in enumerate(pairs):
            ctx.prove(deep_eq(as_str(p[0]), st(names[2 * i])), "domain of pair %d" % i)
            ctx.prove(deep_eq(as_str(p[1]), st(names[2 * i + 1])), "uri of pair %d" % i)
        uris = I.getattr(cfg, "uris")
        doms = I.getattr(cfg, "domains")
        # de-duplicated in order of first appearance
        def dedupe(xs):
            out = []
            for x in xs:
                if not any(truth(deep_eq(x, y)) for y in out):
                    out.append(x)
            return out
        eu = dedupe([st(names[2 * i + 1]) for i in range(npairs)])
        ed = dedupe([st(names[2 * i]) for i in range(npairs)])
        ctx.prove(len(uris) == len(eu) and all(truth(deep_eq(as_str(a), b)) for a, b in zip(uris, eu)), "uris == distinct URIs in order")
        ctx.prove(len(doms) == len(ed) and all(truth(deep_eq(as_str(a), b)) for a, b in zip(doms, ed)), "domains == distinct domains in order")
    return body


def instances(tier):
    q = tier == "quick"
    out = []
    ALLOPS = ARG_OPS + FLAG_OPS + ("BUILD",)
    maxn = 2 if q else 3
    for idx in (BS.SETTING_C2_REQUEST.value, BS.SETTING_C2_POSTREQ.value):
        for n in range(0, maxn + 1):
            for ops in itertools.product(ALLOPS, repeat=n):
                if n == 3 and not (ops[0] in ("BUILD", "_HEADER") and ops[2] in ("PRINT", "HEADER", "URI_APPEND", "PARAMETER")):
                    continue
                if n == 2 and idx == BS.SETTING_C2_POSTREQ.value and q and ops[0] not in ("BUILD", "APPEND", "MASK"):
                    continue
                for term in ((0, 3) if n <= 1 else (0,) if (hash(ops) % 2) else (3,)):
                    out.append(Instance("transform idx=%d %s term=%d" % (idx, "/".join(ops) or "-", term), h_transform(idx, ops, term),
                                        dict(kind="transform", setting=idx, ops=list(ops), terminated=term)))
    for n in range(0, maxn + 1):
        for ops in itertools.product(sorted(REC_OPS), repeat=n):
            if n == 3 and ops[0] != "print":
                continue
            out.append(Instance("recover %s" % ("/".join(ops) or "-"), h_recover(ops, 0 if n % 2 else 2), dict(kind="recover", ops=list(ops))))
    ex = (1, 2, 3, 4, 5, 6, 7, 8)
    for n in range(0, (2 if q else 3) + 1):
        for entries in itertools.product(ex, repeat=n):
            if n == 3 and sum(1 for e in entries if e in (6, 7)) != 1:
                continue
            if n == 2 and q and not any(e in (6, 7) for e in entries) and entries[0] != entries[1]:
                continue
            out.append(Instance("execute %s" % (list(entries),), h_execute(entries, 2 if q else 3, 1 if n % 2 else 0),
                                dict(kind="execute", entries=list(entries)), split=6))
    for idx in (BS.SETTING_PROCINJ_TRANSFORM_X86.value, BS.SETTING_PROCINJ_TRANSFORM_X64.value):
        for la, lp in ((0, 0), (2, 0), (0, 1), (2, 2)):
            out.append(Instance("procinj idx=%d %d/%d" % (idx, la, lp), h_procinj(idx, la, lp), dict(kind="procinj", setting=idx, append=la, prepend=lp)))
    for n in (range(0, 2) if q else range(0, 3)):
        out.append(Instance("gargle pairs=%d" % n, h_gargle(n), dict(kind="gargle", pairs=n, cost=60 ** n), split=12))
    out.append(Instance("gargle 1 symbolic + (0,0) + (0x1000,0x2fff)", h_gargle(1, ((0, 0), (0x1000, 0x2FFF))),
                        dict(kind="gargle", pairs=3, symbolic=1), split=8))
    for idx in (BS.SETTING_SMB_FRAME_HEADER.value, BS.SETTING_TCP_FRAME_HEADER.value):
        for m in range(0, 4):
            out.append(Instance("pivot idx=%d m=%d" % (idx, m), h_pivot(idx, m), dict(kind="pivot", setting=idx, header=m)))
    for idx in STRING_SETTINGS:
        for L in ((0, 5) if q else (0, 3, 7)):
            out.append(Instance("string idx=%d L=%d" % (idx, L), h_string(idx, L), dict(kind="string", setting=idx, L=L)))
    for idx in (BS.SETTING_PROCINJ_STUB.value, BS.SETTING_SPAWNTO.value, BS.SETTING_MASKED_WATERMARK.value):
        out.append(Instance("hex idx=%d" % idx, h_hex(idx, 4), dict(kind="hex", setting=idx, L=4)))
    for L, pad in ((0, 0), (0, 3), (3, 0), (4, 2)):
        out.append(Instance("pubkey L=%d pad=%d" % (L, pad), h_pubkey(L, pad), dict(kind="pubkey", L=L, pad=pad)))
    out.append(Instance("dns idle", h_dnsidle(), dict(kind="dnsidle"), split=6))
    out.append(Instance("bof allocator", h_bof(), dict(kind="bof")))
    k = 7 if q else 9
    symsets = [set(["InternetOpenA", "InternetConnectA", "ExitThread"] + sorted(CORE)[:k - 3]),
               set(["InternetOpenA", "ExitThread"] + sorted(CORE)[-(k - 2):]),
               set(sorted(CORE)[3:3 + k])]
    for si, ss in enumerate(symsets):
        for bg in (dict(comms=1, core=1, cleanup=1), dict(comms=0, core=0, cleanup=0), dict(comms=1, core=0, cleanup=1), dict(comms=0, core=1, cleanup=0)):
            out.append(Instance("beacon gate symset=%d bg=%s" % (si, "".join(str(bg[g]) for g in ("comms", "core", "cleanup"))), h_gate(ss, bg),
                                dict(kind="gate", symbolic=sorted(ss), background=bg, cost=2 ** k), split=5))
    out.append(Instance("killdate 8-digit", h_killdate_int(), dict(kind="killdate_int")))
    out.append(Instance("scalars", h_scalars(), dict(kind="scalars")))
    out.append(Instance("protocol", h_protocol(), dict(kind="protocol")))
    for npairs, L in ((1, 2), (2, 1), (2, 2)) + (() if q else ((3, 1),)):
        out.append(Instance("domains pairs=%d L=%d" % (npairs, L), h_domains(npairs, L), dict(kind="domains", pairs=npairs, L=L), split=6))
    return out


def prechecks(tier, seed):
    """rendering models vs CPython; interpreter vs CPython on the pretty settings of the repo's sample beacons"""
    import glob
    import os
    import random
    import zipfile

    rnd = random.Random(seed)
    V.Ctx.cur = V.Ctx()
    n = 0
    for v in [0, 1, 9, 10, 15, 16, 99, 100, 255, 256, 4095, 4096, 65535, 99999999, (1 << 32) - 1] + [rnd.randrange(1 << 32) for _ in range(10)]:
        sv = SymInt(z3.BitVecVal(v, 40), 0, (1 << 33))
        for spec in ("", "x", "02d", "08x", "#x", "X", "4d"):
            V.Ctx.cur = V.Ctx()
            got = models_str.fmt_value(sv, spec)
            assert V.Ctx.cur._check()
            got = V.model_value(V.Ctx.cur.solver.model(), got) if isinstance(got, SymStr) else got
            assert got == format(v, spec), (v, spec, got)
            n += 1
    MC.new_env()
    for zp in sorted(glob.glob(os.path.join(os.environ.get("VERIF_REPO", "/repo"), "tests", "beacons", "*.zip")))[:3]:
        try:
            with zipfile.ZipFile(zp) as z:
                data = z.read(z.namelist()[0], pwd=b"dissect.cobaltstrike")
            blk = BeaconConfig.from_bytes(data).config_block
        except Exception:  # noqa: BLE001
            continue
        real = BeaconConfig(blk)
        mine = call(BeaconConfig, blk)
        try:
            rs = real.settings
        except Exception:  # noqa: BLE001 — a crash of the real code is reported by the symbolic instances, not here
            continue
        ms = I.getattr(mine, "settings")
        for k in rs:
            if k == "SETTING_PUBKEY":
                continue  # digest is an uninterpreted function in the interpreter
            assert V.to_native(ms[k]) == rs[k] or rs[k] == ms[k], ("pretty setting differs", k, rs[k], ms[k])
            n += 1
        for prop in ("domain_uri_pairs", "uris", "domains", "killdate", "protocol", "port", "watermark", "is_trial", "sleeptime", "jitter"):
            assert V.to_native(I.getattr(mine, prop)) == getattr(real, prop), prop
            n += 1
    return dict(validated=n)
