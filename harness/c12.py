"""C12 — profile string literals encode and decode bytes losslessly and safely (DESIGN.md §4 C12)"""
import itertools
import re as _re

import lark

from harness.common import *  # noqa: F401,F403
from symx import models_lark
from symx.models_lark import SymToken
from dissect.cobaltstrike import c2profile

INFO = dict(
    files=["dissect/cobaltstrike/c2profile.py", "dissect/cobaltstrike/c2profile.lark"],
    bounds=dict(
        quick="round trip + single-token: ALL byte strings of length 0..3 over the full 0..255 alphabet (symbolic), and length 4..5 over "
        "the syntax-relevant alphabet {\", ', \\, x, u, n, newline, ;, {, }, #, 0x00, 0xff, 0}; escape decoding: every literal text of "
        "0..6 symbolic characters (full Unicode range) between the quotes",
        thorough="full alphabet up to length 4, syntax alphabet up to length 6, literal text up to 8 characters",
    ),
    outside="byte strings longer than the bound over the full alphabet; unknown escape sequences (backslash followed by a character "
    "other than x u n r t \\ \" ') — the property does not define them; the regex engine itself (STRING lexer model validated "
    "exhaustively against the compiled terminal each run)",
    stubs=["repr(bytes) -> CPython bytes_repr model (validated exhaustively per byte and on pairs each run)",
           "STRING terminal -> 'first quote preceded by an even-length run of backslashes closes' (validated against the real "
           "regex of the loaded grammar on all strings <=7 over {\", \\, a, newline})"],
    assumptions=["z3 decides QF_BV soundly"],
)

SYNTAX = [0x22, 0x27, 0x5C, ord("x"), ord("u"), ord("n"), 0x0A, ord(";"), ord("{"), ord("}"), ord("#"), 0x00, 0xFF, ord("0")]


def string_pattern():
    for t in c2profile.c2profile_parser.terminals:
        if t.name == "STRING":
            return t.pattern.to_regexp()
    raise AssertionError("STRING terminal not found")


def cp(c):
    return z3.BitVecVal(c, 21) if isinstance(c, int) else c


def single_token_expr(lit):
    """z3 Bool: the text lexes as exactly one STRING token that ends at its last character"""
    cells = lit.cells
    n = len(cells)
    if n < 2:
        return z3.BoolVal(False)
    conj = [cp(cells[0]) == 0x22]
    odd = z3.BoolVal(False)  # parity of the backslash run immediately before position i
    for i in range(1, n):
        closes = z3.And(cp(cells[i]) == 0x22, z3.Not(odd))
        if i < n - 1:
            conj.append(z3.Not(closes))
        else:
            conj.append(closes)
        odd = z3.And(cp(cells[i]) == 0x5C, z3.Not(odd))
    return z3.simplify(z3.And(*conj))


def model_first_close(s):
    """concrete twin of the lexer model (for validation against the real regex): end index of the STRING token or None"""
    if not s or s[0] != '"':
        return None
    odd = False
    for i in range(1, len(s)):
        if s[i] == '"' and not odd:
            return i + 1
        odd = (s[i] == "\\") and not odd
    return None


def _lexer_model_ok():
    pat = _re.compile(string_pattern())
    for L in range(0, 8):
        for tup in itertools.product('"\\a\n', repeat=L):
            s = "".join(tup)
            m = pat.match(s)
            if (m.end() if m else None) != model_first_close(s):
                return False
    return True


LEXER_MODEL_OK = _lexer_model_ok()


def single_token(ctx, lit):
    """bool / z3 Bool: lit is lexed as exactly one STRING token ending at its last character. Fast closed form while the
    loaded grammar's STRING terminal agrees with the lexer model; otherwise the real pattern is matched through the
    regex model (forking), so a changed terminal still gets a verdict."""
    if is_native():
        m = _re.compile(string_pattern()).match(V.to_native(lit))
        return bool(m) and m.end() == len(lit.cells)
    if LEXER_MODEL_OK:
        return single_token_expr(lit)
    from symx import models_re

    m = models_re._run(string_pattern(), lit, 0, True, False)
    return m is not None and m.end() == len(lit.cells)


def mk_token(lit):
    if is_native():
        return lark.Token("STRING", V.to_native(lit))
    return SymToken("STRING", lit)


def h_roundtrip(L, alphabet):
    def body(ctx):
        b = sym_bytes("b", L)
        if alphabet is not None:
            for c in b.cells:
                if isinstance(c, int):
                    if c not in alphabet:
                        raise PathAbort()
                else:
                    ctx.assume(mkbool(z3.Or(*[c == k for k in alphabet])))
        lit = as_str(call(c2profile.value_to_string, V.unwrap(b) if is_native() else b))
        ctx.prove(single_token(ctx, lit), "literal is lexed as exactly one STRING token ending at its last character")
        back = call(c2profile.string_token_to_bytes, mk_token(lit))
        ctx.prove(deep_eq(as_bytes(back), b), "string_token_to_bytes(value_to_string(b)) == b")
        # the literal must stay on the printable-ASCII side so that it survives any text encoding of the profile
        ok = z3.And(*[z3.And(z3.UGE(cp(c), 0x20), z3.ULE(cp(c), 0x7E)) for c in lit.cells])
        ctx.prove(z3.simplify(ok), "literal consists of printable ASCII only")
    return body


HEXD = "0123456789abcdefABCDEF"


def ref_decode(text):
    """independent decoder of the documented escapes over a list of code-point cells; returns list of byte cells.
    Raises ValueError where the documented decoder must reject; PathAbort for escapes the property leaves undefined."""
    out = []
    i = 0
    n = len(text)

    def is_(c, ch):
        return truth(mkbool(cp(c) == ord(ch))) if not isinstance(c, int) else c == ord(ch)

    def low8(c):
        if isinstance(c, int):
            return c & 0xFF
        return z3.simplify(z3.Extract(7, 0, c))

    def hexdigit(c):
        """(ok, value-cell 4 bit as 8-bit)"""
        c8 = low8(c)
        if isinstance(c8, int):
            ch = chr(c8)
            if ch in HEXD:
                return int(ch, 16)
            raise ValueError("bad hex")
        isd = z3.And(z3.UGE(c8, 48), z3.ULE(c8, 57))
        isl = z3.And(z3.UGE(c8, 97), z3.ULE(c8, 102))
        isu = z3.And(z3.UGE(c8, 65), z3.ULE(c8, 70))
        if truth(mkbool(isd)):
            return z3.simplify(c8 - 48)
        if truth(mkbool(isl)):
            return z3.simplify(c8 - 87)
        if truth(mkbool(isu)):
            return z3.simplify(c8 - 55)
        raise ValueError("bad hex")

    def byte_of(h, l):
        return z3.simplify((bv(h) << 4) | bv(l)) if not (isinstance(h, int) and isinstance(l, int)) else (h << 4) | l

    # the implementation first maps every character to chr(ord(c) & 0xFF): escapes are recognised on the low byte
    t8 = [low8(c) for c in text]

    def is8(c, ch):
        return truth(mkbool(bv(c) == ord(ch))) if not isinstance(c, int) else c == ord(ch)

    while i < n:
        c = t8[i]
        if is8(c, "\\") and i + 1 < n:
            e = t8[i + 1]
            if is8(e, "x"):
                if i + 4 > n:
                    raise ValueError("short \\x")
                out.append(byte_of(hexdigit(t8[i + 2]), hexdigit(t8[i + 3])))
                i += 4
            elif is8(e, "u"):
                if i + 6 > n:
                    raise ValueError("short \\u")
                out.append(byte_of(hexdigit(t8[i + 4]), hexdigit(t8[i + 5])))
                i += 6
            else:
                for ch, val in (("n", 10), ("r", 13), ("t", 9), ("\\", 92), ('"', 34), ("'", 39)):
                    if is8(e, ch):
                        out.append(val)
                        break
                else:
                    raise PathAbort()  # undefined escape: outside the property
                i += 2
        else:
            out.append(c)
            i += 1
    return [x.as_long() if (not isinstance(x, int) and z3.is_bv_value(x)) else x for x in out]


def h_escapes(L):
    def body(ctx):
        t = sym_str("t", L)
        lit = SymStr([0x22] + t.cells + [0x22])
        # only literals the lexer accepts as one STRING token are inputs of the decoder
        st = single_token(ctx, lit)
        ctx.assume(st if isinstance(st, bool) else mkbool(st))
        try:
            exp = ("ok", ref_decode(t.cells))
        except ValueError:
            exp = ("exc", None)
        kind, r = outcome(c2profile.string_token_to_bytes, mk_token(lit))
        if exp[0] == "exc":
            ctx.prove(kind == "exc" and isinstance(r, ValueError), "malformed \\x / \\u escape is rejected with ValueError (got %s %r)" % (kind, r))
        else:
            ctx.prove(kind == "ok", "well-formed literal decodes (got %r)" % (r,))
            if kind == "ok":
                ctx.prove(deep_eq(as_bytes(r), SymBytes(exp[1])), "escape sequences decode to their documented byte values")
    return body


def h_passthrough():
    def body(ctx):
        for tok in (lark.Token("NAME", "abc"), "plain", None, 5):
            ctx.prove(call(c2profile.string_token_to_bytes, tok) is tok, "non-STRING input is returned unchanged")
    return body


def instances(tier):
    q = tier == "quick"
    out = []
    for L in (range(0, 4) if q else range(0, 5)):
        out.append(Instance("roundtrip full alphabet L=%d" % L, h_roundtrip(L, None), dict(kind="roundtrip", L=L, alphabet="0..255", cost=8 ** L),
                            split=9 if L >= 3 else 0))
    for L in (range(4, 6) if q else range(4, 7)):
        out.append(Instance("roundtrip syntax alphabet L=%d" % L, h_roundtrip(L, SYNTAX), dict(kind="roundtrip", L=L, alphabet=SYNTAX, cost=6 ** L),
                            split=10))
    for L in (range(0, 7) if q else range(0, 9)):
        out.append(Instance("escapes L=%d" % L, h_escapes(L), dict(kind="escapes", L=L, cost=9 ** L), split=10))
    out.append(Instance("non-STRING passthrough", h_passthrough(), dict(kind="passthrough")))
    return out


def prechecks(tier, seed):
    import random

    rnd = random.Random(seed)
    V.Ctx.cur = V.Ctx()
    n = 0
    # 1. lexer model vs the real STRING regex of the loaded grammar
    pat = _re.compile(string_pattern())
    from symx import models_re

    for L in range(0, 7):
        for tup in itertools.product('"\\a\n', repeat=L):
            s = "".join(tup)
            m = pat.match(s)
            real = m.end() if m else None
            r = models_re._run(string_pattern(), SymStr([ord(c) for c in s]), 0, True, False)
            assert real == (r.end() if r else None), ("regex model vs re on the STRING terminal", s)
            n += 1
    # 2. repr(bytes) model vs CPython: every single byte, every pair over a critical set, random strings
    crit = [0, 9, 10, 13, 31, 32, 34, 39, 92, 126, 127, 128, 255, 65]
    vecs = [bytes([i]) for i in range(256)] + [bytes(t) for t in itertools.product(crit, repeat=2)] + \
           [rnd.randbytes(rnd.randrange(0, 10)) for _ in range(200)]
    for v in vecs:
        got = models_str.m_repr(SymBytes([z3.BitVecVal(c, 8) for c in v]))
        got = "".join(chr(z3.simplify(cp(c)).as_long()) if not isinstance(c, int) else chr(c) for c in got.cells)
        assert got == repr(v), ("repr model", v, got, repr(v))
        a = c2profile.value_to_string(v)
        b = V.to_native(as_str(call(c2profile.value_to_string, SymBytes([z3.BitVecVal(c, 8) for c in v]) if False else SymBytes(list(v)))))
        assert a == b, ("value_to_string interp vs native", v)
        assert c2profile.string_token_to_bytes(lark.Token("STRING", a)) == V.to_native(as_bytes(call(c2profile.string_token_to_bytes, SymToken("STRING", a))))
        n += 3
    # 3. reference escape decoder vs the repo's own test literals
    for lit, exp in (('"\\x41\\x42"', b"AB"), ('"\\u0041"', b"A"), ('"a\\nb"', b"a\nb"), ('"\\\\"', b"\\"), ('"\\""', b'"'), ('"\\t\\r"', b"\t\r")):
        assert bytes(ref_decode([ord(c) for c in lit[1:-1]])) == exp
        assert c2profile.string_token_to_bytes(lark.Token("STRING", lit)) == exp
        n += 2
    return dict(validated=n, string_regex=string_pattern())
