"""C01 — beacon configuration extraction is exact and complete (DESIGN.md §4 C01)"""
import io as _io

from harness.common import *  # noqa: F401,F403
from harness import cfgbuild as CB
from harness import c18 as PEB
from harness import c09 as XE
from harness.c15 import io_shim, native_io
from symx.values import IoShim, ModelBytesIO, ModelOSFile
from dissect.cobaltstrike import beacon, pe, utils, xordecode
from dissect.cobaltstrike.beacon import BeaconConfig

UTILS = "dissect.cobaltstrike.utils"
HDR = b"\x00\x01\x00\x01\x00\x02\x00"

INFO = dict(
    files=["dissect/cobaltstrike/beacon.py", "dissect/cobaltstrike/utils.py", "dissect/cobaltstrike/xordecode.py", "dissect/cobaltstrike/pe.py"],
    bounds=dict(
        quick="H1: fully symbolic raw files of 0..10 bytes (no structure imposed: decoys, overlapping headers, header at offset 0 / "
        "at EOF, key 0x00 are all inside the quantifier) x key configuration {defaults 69/2e/00, caller list of two symbolic keys, "
        "all-keys mode (7..8 bytes)} x read-buffer size {2, 5, 8}, BytesIO and OS-file models; H4: two candidate blocks under two tried keys in "
        "both file orders (default list: every pair of the three keys; caller list: two symbolic keys): key priority decides; H2: the real 8192-byte buffer: concrete filler of "
        "up to 3 buffers with the block at a symbolic offset in {0,1} u [8192-9, 8192+2] u [16384-9, 16384+2] u end-of-file positions, "
        "enumerated key in {69, 2e, 00, a7}, symbolic protocol value and 2 symbolic neighbour bytes on each side (decoys allowed: the "
        "oracle is the definition); H3: PE scaffold with the block in its section, raw and as XorEncoded stage (stub 5; the nonce is symbolic in the thorough tier)",
        thorough="H1 up to 12 bytes, buffers {1,2,3,5,8,13}; H2 more offsets and two filler patterns; H3 stubs 0/5/64",
    ),
    outside="fully symbolic filler at real size; files longer than 3 buffers; the 2nd..nth candidate of iter_beacon_config_blocks; the "
    "relative order of the 253 left-over keys in all-keys mode (byte-frequency heuristic: implementation-defined, the oracle only "
    "requires priority of the listed keys and that the result is a true candidate at the smallest offset for its key); Guardrails "
    "fallback (C17). H1 replaces pe.find_mz_offset by None for files < 64 bytes (lemma discharged in C09's lemma instances and "
    "re-discharged here per file size)",
    stubs=["io.BytesIO / OS file -> models", "io.DEFAULT_BUFFER_SIZE seen by utils -> parameter (H1) / real 8192 (H2, H3)",
           "pe.find_mz_offset -> None on files < 64 bytes (lemma-justified cut, H1 only)"],
    assumptions=["z3 decides QF_BV soundly"],
)


def mkfile(data, osfile):
    if is_native():
        if osfile:
            return ModelOSFile(data).to_native()
        return _io.BytesIO(V.to_native(data) if not isinstance(data, (bytes, bytearray)) else bytes(data))
    return (ModelOSFile if osfile else ModelBytesIO)(data)


def cand(cells, key, i):
    """bool | SymBool: a configuration header obfuscated with `key` starts at offset i"""
    if i < 0 or i + 7 > len(cells):
        return False
    want = [(h ^ key) if isinstance(key, int) else z3.simplify(z3.BitVecVal(h, 8) ^ key) for h in HDR]
    return SymBytes(cells[i:i + 7]).eq(SymBytes(want))


def unxor(cells, key):
    return SymBytes([(c ^ key) if isinstance(c, int) and isinstance(key, int) else z3.simplify(bv(c) ^ bv(key)) for c in cells])


def key_cell(k):
    """xor key argument (bytes | SymBytes of length 1) -> cell"""
    c = seq_cells(k, SymBytes)[0]
    return c


def check_result(ctx, cells, keys, kind, r, all_keys=False, positions=None, view="raw"):
    """oracle of B.6 on the (decoded) view `cells`: first candidate in (key order, offset) order; `positions`: offsets that can
    possibly hold a header (None = all)"""
    pos = range(0, len(cells) - 6) if positions is None else positions
    found = None
    for k in keys:
        for i in pos:
            if truth(cand(cells, k, i)):
                found = (k, i)
                break
        if found:
            break
    if found is None and all_keys:
        ctx.prove(True, "all-keys mode")
        if kind == "ok":
            k = key_cell(r.xorkey)
            i0 = None
            for i in pos:
                if truth(cand(cells, k, i)):
                    i0 = i
                    break
            ctx.prove(i0 is not None, "all-keys mode: the reported key really has a candidate block")
            ctx.prove(r.xorencoded is (view == "xorencoded"), "all-keys mode: xorencoded flag (want %s)" % (view == "xorencoded"))
            if i0 is not None:
                ctx.prove(deep_eq(as_bytes(r.config_block), unxor(cells[i0:i0 + 4096], k)), "all-keys mode: block == first candidate of the reported key")
        else:
            ctx.prove(isinstance(r, ValueError), "only ValueError (got %s)" % type(r).__name__)
            for k in range(256):
                if k in [x for x in keys if isinstance(x, int)]:
                    continue
                for i in pos:
                    c = cand(cells, k, i)
                    ctx.prove(mkbool(z3.Not(c.e)) if isinstance(c, SymBool) else (not c), "all-keys mode: ValueError although key 0x%02x has a candidate at %d" % (k, i))
        return
    if found is None:
        ctx.prove(kind == "exc" and isinstance(r, ValueError), "no candidate under the tried keys -> ValueError (got %s %s)" % (
            kind, type(r).__name__ if kind == "exc" else "a configuration"))
        return
    k, i = found
    ctx.prove(kind == "ok", "a candidate exists (key %r offset %d) but extraction failed with %s" % (k, i, r if kind == "exc" else ""))
    if kind != "ok":
        return
    ctx.prove(deep_eq(key_cell(r.xorkey) if not isinstance(key_cell(r.xorkey), int) or not isinstance(k, int) else key_cell(r.xorkey), k)
              if not (isinstance(k, int) and isinstance(key_cell(r.xorkey), int)) else key_cell(r.xorkey) == k,
              "xorkey is the first key in priority order that has a candidate (want %r got %r)" % (k, r.xorkey))
    ctx.prove(len(seq_cells(r.xorkey, SymBytes)) == 1, "xorkey is one byte")
    ctx.prove(r.xorencoded is (view == "xorencoded"), "xorencoded flag (want %s)" % (view == "xorencoded"))
    block = unxor(cells[i:i + 4096], k)
    ctx.prove(deep_eq(as_bytes(r.config_block), block), "config_block == 4096 bytes (or up to EOF) at the first candidate, un-XORed")
    ref = call(BeaconConfig, V.unwrap(block))
    got = [(s.index.value, getattr(s.type, "value", s.type), s.length, s.value) for s in r.settings_tuple]
    want = [(s.index.value, getattr(s.type, "value", s.type), s.length, s.value) for s in ref.settings_tuple]
    ctx.prove(deep_eq(got, want), "settings == settings decoded from that block")


def h_small(N, B, keymode, osfile):
    def body(ctx):
        F = sym_bytes("file", N)
        kw = {}
        if keymode == "default":
            keys = [0x69, 0x2E, 0x00]
        elif keymode == "custom+all":
            # caller-supplied keys first, then every other byte value — the defaults included. (The caller keys are concrete here:
            # the library builds a set from them, and a set over symbolic members has no model.)
            kw["xor_keys"] = [b"\xa5", b"\x5a"]
            keys = [0xA5, 0x5A]
            kw["all_xor_keys"] = True
        elif keymode == "custom":
            k1, k2 = sym_bytes("key1", 1), sym_bytes("key2", 1)
            kw["xor_keys"] = [V.unwrap(k1), V.unwrap(k2)] if not is_native() else [V.to_native(k1), V.to_native(k2)]
            keys = [k1.cells[0], k2.cells[0]]
        else:
            keys = [0x69, 0x2E, 0x00]
            kw["all_xor_keys"] = True
        if is_native():
            saved = utils.io
            utils.io = native_io(B)
        else:
            I.set_override(UTILS, "io", io_shim(B))
            I.stubs[pe.find_mz_offset] = lambda *a, **k: None  # files < 64 bytes cannot hold a DOS header (lemma instances; NOT true from 64 bytes on: e_lfanew may point into the DOS header itself)
        try:
            kind, r = outcome(BeaconConfig.from_file, mkfile(F, osfile), **kw)
        finally:
            if is_native():
                utils.io = saved
            else:
                I.clear_override(UTILS, "io")
                I.stubs.pop(pe.find_mz_offset, None)
        check_result(ctx, F.cells, keys, kind, r, all_keys=(keymode in ("all", "custom+all")))
    return body


def h_priority(B, keymode, osfile):
    """two candidate blocks under two different tried keys: file order is the reverse of key priority in one of the two
    symbolic arrangements, so the key-priority rule (and not file order) must decide"""
    def body(ctx):
        kw = {}
        if keymode == "default":
            keys = [0x69, 0x2E, 0x00]
            ia = sym_int("first_block_key", 0, 2)
            ib = sym_int("second_block_key", 0, 2)
            ia, ib = (concretize(ia), concretize(ib)) if not is_native() else (ia, ib)
            ka, kb = keys[ia], keys[ib]
        else:
            k1, k2 = sym_bytes("key1", 1), sym_bytes("key2", 1)
            kw["xor_keys"] = [V.unwrap(k1), V.unwrap(k2)] if not is_native() else [V.to_native(k1), V.to_native(k2)]
            keys = [k1.cells[0], k2.cells[0]]
            swap = sym_int("swap", 0, 1)
            swap = concretize(swap) if not is_native() else swap
            ka, kb = (keys[1], keys[0]) if swap else (keys[0], keys[1])
        gap = sym_bytes("gap", 3)
        blk = lambda k, v: [(c ^ k) if isinstance(k, int) else z3.simplify(z3.BitVecVal(c, 8) ^ k) for c in list(HDR) + [v, 0, 0]]  # noqa: E731
        cells = gap.cells[:1] + blk(ka, 1) + gap.cells[1:2] + blk(kb, 2) + gap.cells[2:]
        F = SymBytes(cells)
        if is_native():
            saved = utils.io
            utils.io = native_io(B)
        else:
            I.set_override(UTILS, "io", io_shim(B))
            I.stubs[pe.find_mz_offset] = lambda *a, **k: None
        try:
            kind, r = outcome(BeaconConfig.from_file, mkfile(F, osfile), **kw)
        finally:
            if is_native():
                utils.io = saved
            else:
                I.clear_override(UTILS, "io")
                I.stubs.pop(pe.find_mz_offset, None)
        check_result(ctx, F.cells, keys, kind, r)
    return body


def h_lemma(N):
    def body(ctx):
        r = call(pe.find_mz_offset, ModelBytesIO(sym_bytes("file", N)))
        ctx.prove(r is None, "find_mz_offset on %d arbitrary bytes is None" % N)
    return body


# ----------------------------------------------------------------------------------------------------------------------
# H2: the real read buffer
# ----------------------------------------------------------------------------------------------------------------------


def filler(n, pattern):
    if pattern == 0:
        return [0x41 + (i % 23) for i in range(n)]
    return [(i * 7 + 3) & 0xFF or 1 for i in range(n)]


def small_block(key, proto_cells, extra=8):
    """a short obfuscated block: protocol record with symbolic value, one port record, terminator, `extra` padding zeros"""
    plain = list(HDR[:6]) + list(proto_cells) + CB.rec(2, CB.SHORT, CB.u16be(443)) + [0, 0] + [0] * extra
    return [(c ^ key) if isinstance(c, int) else z3.simplify(c ^ z3.BitVecVal(key, 8)) for c in plain]


def h_real(total, offsets, key, pattern, osfile, keymode="default", NB=2):
    """file of `total` bytes of concrete filler with a short block at a symbolic offset (one of `offsets`), 6 symbolic bytes
    on each side of it; real io.DEFAULT_BUFFER_SIZE"""
    def body(ctx):
        o = sym_int("offset", 0, total)
        if is_native():
            if o not in offsets:
                raise PathAbort()
        else:
            ctx.assume(mkbool(z3.Or(*[o.e == x for x in offsets])))
            o = concretize(o)
        proto = SymBytes([0] + sym_bytes("proto", 1).cells)  # (the 7th header byte is the high byte of the protocol value)
        blk = small_block(key, proto.cells)
        cells = filler(total, pattern)
        left = sym_bytes("left", NB).cells
        right = sym_bytes("right", NB).cells
        lo = max(0, o - NB)
        cells[lo:o] = left[NB - (o - lo):]
        end = min(total, o + len(blk))
        cells[o:end] = blk[:end - o]
        r_end = min(total, end + NB)
        cells[end:r_end] = right[:r_end - end]
        kw = {}
        keys = [0x69, 0x2E, 0x00]
        if key not in keys:
            if keymode == "custom":
                kw["xor_keys"] = [bytes([key]), b"\x69"]
                keys = [key, 0x69]
            else:
                kw["all_xor_keys"] = True
        kind, r = outcome(BeaconConfig.from_file, mkfile(SymBytes(cells), osfile), **kw)
        near = [i for i in range(max(0, lo - 6), min(total - 6, r_end + 1))]
        # windows that do not touch a symbolic or block byte are concrete filler: checked natively (no candidate there)
        check_result(ctx, cells, keys, kind, r, all_keys=("all_xor_keys" in kw), positions=concrete_candidates(cells, keys, near) if "all_xor_keys" not in kw else
                     concrete_candidates(cells, list(range(256)), near))
    return body


_FILLER_OK = {}


def concrete_candidates(cells, keys, near):
    """offsets to examine: every window overlapping the symbolic neighbourhood, plus any all-concrete window that happens to be a
    header under one of the keys (none for the chosen fillers — asserted)"""
    out = set(near)
    ints = [k for k in keys if isinstance(k, int)]
    n = len(cells)
    for i in range(0, n - 6):
        if i in out:
            continue
        w = cells[i:i + 7]
        if all(isinstance(c, int) for c in w):
            k = w[0]
            if k in ints and bytes(w) == bytes(h ^ k for h in HDR):
                out.add(i)
    return sorted(out)


# ----------------------------------------------------------------------------------------------------------------------
# H3: containers
# ----------------------------------------------------------------------------------------------------------------------


def h_container(arch, key, stublen, encoded, sym_nonce=False, all_keys=False, nonce_pattern=None, tail_block=False):
    def body(ctx):
        proto = SymBytes([0] + sym_bytes("proto", 1).cells)
        blk = small_block(key, proto.cells, extra=24)
        raw = blk + [0x33] * (PEB.RAW - len(blk))
        if tail_block:
            raw = [0x33] * PEB.RAW  # the image itself holds no configuration: the block lies un-encoded BEHIND the XorEncoded stage
        img, lay = PEB.build_image(arch, 64, 1, b"MZRE", b"PE\0\0", [1, 2, 3, 4], [(0x1000, 0x40)], 0, [raw])
        plain = SymBytes(list(img))
        keys = [0x69, 0x2E, 0x00]
        kw = {}
        if key not in keys:
            if all_keys:
                kw["all_xor_keys"] = True
            else:
                kw["xor_keys"] = [bytes([key])]
                keys = [key]
        if encoded:
            # (a symbolic nonce makes every encoded byte symbolic: thorough tier only; C09 decides detection for symbolic nonces)
            nonce = sym_bytes("nonce", 4) if sym_nonce else SymBytes([0x5A, 0xC3, 0x11, 0x7E])
            if nonce_pattern is not None:
                sn = sym_bytes("nonce", 4)
                nonce = SymBytes([sn.cells[i] if b is None else b for i, b in enumerate(nonce_pattern)])
            stub = SymBytes([0x90] * (stublen - 3) + [0xFF, 0xFF, 0xFF]) if stublen >= 3 else SymBytes([0x90] * stublen)
            data = XE.encode(plain, nonce, stub)
        else:
            data = plain
        if tail_block:
            # (a memory dump / concatenated carve: detection of the stage succeeds, the decoded view holds no block, the raw view does)
            off = len(data.cells) + 3
            data = SymBytes(data.cells + [0x77, 0x78, 0x79] + blk)
            kind, r = outcome(BeaconConfig.from_file, mkfile(data, False), **kw)
            check_result(ctx, data.cells, keys, kind, r, all_keys=all_keys, positions=[off + d for d in range(-6, 7) if off + d + 7 <= len(data.cells)], view="raw")
            return
        kind, r = outcome(BeaconConfig.from_file, mkfile(data, False), **kw)
        pos = [lay["ptrs"][0] + d for d in range(-6, 7)]
        check_result(ctx, plain.cells, keys, kind, r, all_keys=all_keys, positions=[p for p in pos if 0 <= p], view="xorencoded" if encoded else "raw")
        if kind == "ok":
            ctx.prove(r.architecture == arch, "architecture of the embedding image")
            ctx.prove(deep_eq(r.pe_compile_stamp, 0x04030201), "compile stamp of the embedding image")
    return body


def instances(tier):
    q = tier == "quick"
    out = []
    for N in (range(0, 11) if q else range(0, 13)):
        for B in ((2, 5, 8) if q else (1, 2, 3, 5, 8, 13)):
            for km in ("default", "custom"):
                if N < 7 and (B != 5 or km != "default"):
                    continue
                if not q and N >= 10 and (B != 5 or (N == 12 and km == "custom")):
                    continue  # (cost grows ~x3 per byte: the largest files run at one buffer size)
                if q and N > 9 and B != 5:
                    continue
                for osf in ((False, True) if (B == 5 and km == "default" and N <= 9) else (False,)):
                    out.append(Instance("H1 file=%d buffer=%d keys=%s %s" % (N, B, km, "osfile" if osf else "bytesio"), h_small(N, B, km, osf),
                                        dict(kind="H1", file=N, buffer=B, keys=km, file_model="os" if osf else "BytesIO", cost=4 ** N),
                                        split=12, max_loop=3000))
    out.append(Instance("H1 file=7 buffer=8 keys=custom+all", h_small(7, 8, "custom+all", False), dict(kind="H1", file=7, buffer=8, keys="caller keys a5 5a, then all", cost=10 ** 9),
                        split=12, max_loop=3000, timeout=1400))
    for N in ((7,) if q else (7, 8)):
        out.append(Instance("H1 file=%d buffer=8 keys=all" % N, h_small(N, 8, "all", False), dict(kind="H1", file=N, buffer=8, keys="all", cost=10 ** 9),
                            split=12, max_loop=3000, timeout=1400))
    for B in ((5, 8) if q else (1, 3, 5, 8, 13)):
        for km in ("default", "custom"):
            for osf in ((False, True) if B == 5 else (False,)):
                out.append(Instance("H4 two blocks under two keys buffer=%d keys=%s %s" % (B, km, "osfile" if osf else "bytesio"), h_priority(B, km, osf),
                                    dict(kind="H4", buffer=B, keys=km, file_model="os" if osf else "BytesIO", cost=5000), split=10, max_loop=3000))
    for N in ((0, 7, 10) if q else (0, 7, 10, 12, 40, 63)):
        out.append(Instance("lemma find_mz_offset None on %d bytes" % N, h_lemma(N), dict(kind="lemma", file=N, cost=10), max_loop=3000))
    # H2
    B = _io.DEFAULT_BUFFER_SIZE
    for key in ((0x69, 0x00, 0xA7) if q else (0x69, 0x2E, 0x00, 0xA7)):
        for pattern in ((0,) if q else (0, 1)):
            total = 2 * B + 40
            blk_len = 6 + 2 + 8 + 2 + 8
            offs = [0, 1] + list(range(B - 9, B + 3)) + list(range(2 * B - 9, 2 * B + 3)) + [total - blk_len, total - blk_len + 9, total - 8, total - 7]
            if q:
                offs = [0, 1, B - 7, B - 6, B - 5, B - 1, B, B + 1, 2 * B - 6, 2 * B - 1, total - blk_len, total - 8, total - 7]
            for osf in ((False,) if q and key != 0x00 else (False, True)):
                out.append(Instance("H2 real buffer key=%02x filler=%d %s" % (key, pattern, "osfile" if osf else "bytesio"),
                                    h_real(total, offs, key, pattern, osf), dict(kind="H2", key=key, filler=pattern, total=total, offsets=offs,
                                                                                  neighbours=2, file_model="os" if osf else "BytesIO", cost=10 ** 8),
                                    split=6, max_loop=20000, timeout=1400))
            # (thorough) four symbolic bytes on each side
            for o6 in (() if q else (B - 3, 2 * B - 1)):
                if key != 0x69 or pattern:
                    continue
                out.append(Instance("H2 real buffer key=%02x filler=%d offset=%d four symbolic neighbours" % (key, pattern, o6),
                                    h_real(total, [o6], key, pattern, False, NB=4), dict(kind="H2", key=key, filler=pattern, total=total, offsets=[o6],
                                                                                           neighbours=4, cost=10 ** 9), split=10, max_loop=20000, timeout=1400))
    out.append(Instance("H2 real buffer key=a7 custom list", h_real(B + 60, [0, B - 6, B - 1, B], 0xA7, 0, False, "custom"),
                        dict(kind="H2", key=0xA7, keys="custom", cost=10 ** 7), split=6, max_loop=20000))
    # H3
    for arch in (("x86",) if q else ("x86", "x64")):
        for key in ((0x2E,) if q else (0x2E, 0x69, 0xCC)):
            out.append(Instance("H3 PE raw %s key=%02x" % (arch, key), h_container(arch, key, 0, False), dict(kind="H3", arch=arch, key=key, encoded=False, cost=10 ** 6),
                                split=6, max_loop=20000))
            for st in ((5,) if q else (0, 5, 64)):
                out.append(Instance("H3 XorEncoded %s key=%02x stub=%d" % (arch, key, st), h_container(arch, key, st, True, sym_nonce=not q and st == 5),
                                    dict(kind="H3", arch=arch, key=key, encoded=True, stub=st, symbolic_nonce=(not q and st == 5), cost=10 ** 7), split=6, max_loop=20000))
    # XorEncoded stage whose block key is only reached by the all-keys retry (the xorencoded flag must survive the retry)
    out.append(Instance("H3 XorEncoded x86 stage followed by a raw block key=2e", h_container("x86", 0x2E, 5, True, tail_block=True),
                        dict(kind="H3", arch="x86", key=0x2E, encoded=True, block="raw, behind the stage", cost=10 ** 6), split=8, max_loop=60000, timeout=1400))
    out.append(Instance("H3 XorEncoded x86 key=cc stub=5 all-keys", h_container("x86", 0xCC, 5, True, all_keys=True),
                        dict(kind="H3", arch="x86", key=0xCC, encoded=True, stub=5, keys="all", cost=10 ** 7), split=6, max_loop=20000))
    # stage without an end-of-stub marker whose nonce begins ff ff ff: located through the size field although the marker search hits
    if not q:
        out.append(Instance("H3 XorEncoded x86 key=2e stub=0 nonce=ff ff ff ??", h_container("x86", 0x2E, 0, True, nonce_pattern=[0xFF, 0xFF, 0xFF, None]),
                            dict(kind="H3", arch="x86", key=0x2E, encoded=True, stub=0, nonce="ff ff ff + 1 symbolic byte", cost=10 ** 7), split=6, max_loop=20000))
    out.append(Instance("H3 XorEncoded x86 key=69 stub=2 (no marker) nonce=?? ff ff ff", h_container("x86", 0x69, 2, True, nonce_pattern=[0x10 if q else None, 0xFF, 0xFF, 0xFF]),
                        dict(kind="H3", arch="x86", key=0x69, encoded=True, stub=2, nonce="1 symbolic byte + ff ff ff", cost=10 ** 7), split=6, max_loop=20000))
    return out


def prechecks(tier, seed):
    """scaffold sanity against the real extractor (concrete instances of H2/H3)"""
    n = 0
    bad = []
    B = _io.DEFAULT_BUFFER_SIZE
    for key in (0x69, 0x00, 0xA7):
        for o in (0, B - 3, 2 * B - 1):
            cells = filler(2 * B + 40, 0)
            blk = small_block(key, [0, 8])
            cells[o:o + len(blk)] = blk
            kw = {} if key != 0xA7 else dict(all_xor_keys=True)
            # (a concrete smoke run of the scaffold; what the extractor does with it is decided by the instances, so a deviation
            # here is recorded, not raised: it must surface as a replayed VIOLATION of an instance, not as a harness error)
            try:
                r = BeaconConfig.from_bytes(bytes(cells), **kw)
                ok = r.xorkey == bytes([key]) and r.raw_settings["SETTING_PROTOCOL"] == 8 and r.raw_settings["SETTING_PORT"] == 443
            except Exception:  # noqa: BLE001
                ok = False
            if ok:
                n += 1
            else:
                bad.append((key, o))
    return dict(validated=n, scaffold_deviations=bad)
