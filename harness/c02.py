"""C02 — settings are decoded exactly and all views agree (DESIGN.md §4 C02, App. B.1)"""
import itertools

from harness.common import *  # noqa: F401,F403
from symx.models_lib import SymOrderedDict, SymMappingProxy
from symx.models_struct import SymEnum
from dissect.cobaltstrike import beacon
from dissect.cobaltstrike.beacon import BeaconSetting, SettingsType, BeaconConfig

BEACON = "dissect.cobaltstrike.beacon"

INFO = dict(
    files=["dissect/cobaltstrike/beacon.py"],
    bounds=dict(
        quick="blocks of <=2 records, each with a fully symbolic 16-bit index (!=0, pairwise distinct) and 16-bit type, value length in "
        "{0,1,2,4} with symbolic bytes, followed by 00 00 + 0/2/6/8 symbolic trailing bytes, exact end of data, or a truncated record; "
        "name/pretty views over an index domain {1, 2, 3, 5, 36, 37, highest defined, highest+1, 200, 65535} minus indices with a type-specific pretty-printer (symbolic choice); 128-byte "
        "User-Agent with a symbolic window and 0..3 continuation bytes before its NUL",
        thorough="<=3 records, lengths {0,1,2,3,4,6}",
    ),
    outside="the mapping views of blocks with repeated indices (a configuration carries each setting once; with repeats the const/name "
    "and enum views merge differently by construction — settings_tuple, setting_enums and max_setting_enum ARE checked with repeats); values longer than 6 bytes except in the User-Agent instances; more than 3 records",
    stubs=["dissect.cstruct Setting reader -> generated source interpreted, leaves modelled", "io.BytesIO -> pure model",
           "collections.OrderedDict / types.MappingProxyType -> association-list models with symbolic keys"],
    assumptions=["z3 decides QF_BV soundly"],
)

PRETTY = {k.value for k in beacon.SETTING_TO_PRETTYFUNC}
UA = BeaconSetting.SETTING_USERAGENT.value
WM = BeaconSetting.SETTING_WATERMARKHASH.value
MAXDEF = max(m.value for m in BeaconSetting.__members__.values())


def install_models():
    I.set_override(BEACON, "OrderedDict", SymOrderedDict)
    I.set_override(BEACON, "MappingProxyType", SymMappingProxy)


def u16(v):
    return [z3.simplify(z3.Extract(15, 8, v.e)), z3.simplify(z3.Extract(7, 0, v.e))] if isinstance(v, SymInt) else [v >> 8, v & 255]


def norm(cells):
    return [c.as_long() if (not isinstance(c, int) and z3.is_bv_value(c)) else c for c in cells]


def be_int(cells):
    v = 0
    for c in cells:
        v = binop("+", binop("*", v, 256), SymInt.from_byte(c))
    return v


def build_block(ctx, lens, ending, idx_domain=None, tag="", distinct=True):
    recs = []
    data = []
    for i, L in enumerate(lens):
        if idx_domain is None:
            idx = sym_int("idx%d" % i, 1, 0xFFFF)
        else:
            idx = sym_int("idx%d" % i, 1, 0xFFFF)
            ors = [compare("==", idx, k) for k in idx_domain]
            if not is_native():
                ctx.assume(z3.Or(*[V.tobool_expr(o) if not isinstance(o, bool) else z3.BoolVal(o) for o in ors]))
            elif idx not in idx_domain:
                raise PathAbort()
        typ = sym_int("typ%d" % i, 0, 0xFFFF)
        val = sym_bytes("val%d" % i, L)
        for j, (pi, _, _) in enumerate(recs):
            if distinct:
                ctx.assume(compare("!=", idx, pi))
        recs.append((idx, typ, val))
        data += norm(u16(idx) + u16(typ)) + [L >> 8, L & 255] + val.cells
    if ending[0] == "term":
        tr = sym_bytes("trail", ending[1])
        data += [0, 0] + tr.cells
    elif ending[0] == "trunc":
        # a further record cut short by the end of data: header (and part of the value) present
        extra = sym_bytes("cut", ending[1])
        if ending[1] >= 2:
            ctx.assume(mkbool(z3.Or(bv(extra.cells[0]) != 0, bv(extra.cells[1]) != 0)) if not extra.is_concrete() else
                       (extra.cells[0] != 0 or extra.cells[1] != 0))
        if ending[1] >= 6:
            # declared length larger than what follows
            ln = be_int(extra.cells[4:6])
            ctx.assume(compare(">", ln, ending[1] - 6))
        data += extra.cells
    return recs, SymBytes(data)


def expected_raw(typ, val, parse):
    """App. B.1: value as exposed by the raw views"""
    if not parse:
        return val
    if truth(compare("==", typ, 1)):
        return be_int(val.cells[:2])
    if truth(compare("==", typ, 2)):
        return be_int(val.cells[:4])
    return val


def items_of(m):
    return list(m.items())


def h_tlv(lens, ending, distinct=True):
    def body(ctx):
        if not is_native():
            install_models()
        recs, block = build_block(ctx, lens, ending, distinct=distinct)
        cfg = call(BeaconConfig, V.unwrap(block) if is_native() else block)
        st = cfg.settings_tuple
        ctx.prove(len(st) == len(recs), "number of settings decoded == number of complete records (%d vs %d)" % (len(st), len(recs)))
        for s, (idx, typ, val) in zip(st, recs):
            ctx.prove(deep_eq(s.index.value, idx), "setting index as serialized")
            ctx.prove(deep_eq(s.type.value if not isinstance(s.type, (int, SymInt)) else s.type, typ), "setting type as serialized")
            ctx.prove(deep_eq(s.length, len(val.cells)), "setting length as serialized")
            ctx.prove(deep_eq(as_bytes(s.value), val), "setting value bytes as serialized")
        ctx.prove(deep_eq(list(I.getattr(cfg, "setting_enums")), [r[0] for r in recs]), "setting_enums lists the indices in order")
        if recs:
            mx = I.getattr(cfg, "max_setting_enum")
            for idx, _, _ in recs:
                ctx.prove(compare(">=", mx, idx), "max_setting_enum >= every index")
            ors = [V.tobool_expr(compare("==", mx, r[0])) for r in recs]
            ctx.prove(z3.Or(*[z3.BoolVal(o) if isinstance(o, bool) else o for o in ors]), "max_setting_enum is one of the indices")
        if not distinct:
            return  # with repeated indices only the per-record observables are claimed (the mappings merge by construction)
        # const-indexed views
        for parse in (True, False):
            m = call(I.getattr(cfg, "settings_map"), "const", False, parse)
            it = items_of(m)
            ctx.prove(len(it) == len(recs), "const view (parse=%s) has one entry per setting" % parse)
            for (k, v), (idx, typ, val) in zip(it, recs):
                ctx.prove(deep_eq(k, idx), "const view key == index value, in on-disk order")
                ctx.prove(deep_eq(v, expected_raw(typ, val, parse)) if not isinstance(expected_raw(typ, val, parse), SymBytes)
                          else deep_eq(as_bytes(v), expected_raw(typ, val, parse)),
                          "const view value: u16be/u32be for SHORT/INT, raw bytes otherwise (parse=%s)" % parse)
        rbi = I.getattr(cfg, "raw_settings_by_index")
        ctx.prove(len(items_of(rbi)) == len(recs), "raw_settings_by_index has one entry per setting")
        for (k, v), (idx, typ, val) in zip(items_of(rbi), recs):
            e = expected_raw(typ, val, True)
            ctx.prove(deep_eq(k, idx), "raw_settings_by_index key order")
            ctx.prove(deep_eq(as_bytes(v), e) if isinstance(e, SymBytes) else deep_eq(v, e), "raw_settings_by_index value")
        # enum-indexed view: same order, key.value == index, same values as the const view
        me = call(I.getattr(cfg, "settings_map"), "enum", False, True)
        ite = items_of(me)
        ctx.prove(len(ite) == len(recs), "enum view has one entry per setting")
        for (k, v), (k2, v2), (idx, typ, val) in zip(ite, items_of(rbi), recs):
            ctx.prove(deep_eq(k.value, idx), "enum view key has the index value")
            wm_short = z3.And(V.tobool_expr(compare("==", idx, WM)) if not isinstance(compare("==", idx, WM), bool) else z3.BoolVal(compare("==", idx, WM)),
                              V.tobool_expr(compare("==", typ, 1)) if not isinstance(compare("==", typ, 1), bool) else z3.BoolVal(compare("==", typ, 1)))
            kt = k.etype if isinstance(k, SymEnum) else type(k)
            ctx.prove(iff(kt is beacon.DeprecatedBeaconSetting, z3.simplify(wm_short)),
                      "index 36 is the deprecated INJECT_OPTIONS enum exactly when its type is TYPE_SHORT")
            ctx.prove(deep_eq(as_bytes(v), as_bytes(v2)) if isinstance(v2, (bytes, SymBytes)) else deep_eq(v, v2),
                      "enum view value == const view value")
        # read-only
        for view in (rbi, me):
            try:
                view[1] = b"x"
                ok = False
            except TypeError:
                ok = True
            ctx.prove(ok, "settings mapping rejects mutation with TypeError")
    return body


# indices whose pretty-printer expects a particular value type are left to C03 (well-formed encodings); 36 stays: its
# pretty-printer is type-agnostic and its name depends on the type
NAME_DOMAIN = sorted(k for k in {1, 2, 3, 5, WM, WM + 1, MAXDEF, MAXDEF + 1, 200, 65535} if k == WM or k not in PRETTY)


def expected_name(idx, typ):
    """name of an index from the real enum table (App. B.1); forks only over the small domain"""
    k = concretize(idx)
    if k == WM and truth(compare("==", typ, 1)):
        return "SETTING_INJECT_OPTIONS"
    try:
        n = BeaconSetting(k).name
    except ValueError:
        n = None
    if n is None:
        return "BeaconSetting_%d" % k
    return n


def h_names(lens, ending):
    def body(ctx):
        if not is_native():
            install_models()
        recs, block = build_block(ctx, lens, ending, idx_domain=NAME_DOMAIN)
        cfg = call(BeaconConfig, V.unwrap(block) if is_native() else block)
        raw = I.getattr(cfg, "raw_settings")
        rbi = I.getattr(cfg, "raw_settings_by_index")
        pretty = I.getattr(cfg, "settings")
        pbi = I.getattr(cfg, "settings_by_index")
        ctx.prove(len(items_of(raw)) == len(recs) == len(items_of(pretty)) == len(items_of(pbi)), "all views have one entry per setting")
        for (kn, vn), (kc, vc), (kp, vp), (kq, vq), (idx, typ, val) in zip(items_of(raw), items_of(rbi), items_of(pretty), items_of(pbi), recs):
            name = expected_name(idx, typ)
            ctx.prove(deep_eq(kn, name), "raw_settings key == enum name / synthetic name / type-dependent name of 36 (%s)" % name)
            ctx.prove(deep_eq(kp, name), "settings key == same name")
            ctx.prove(deep_eq(kc, idx) and deep_eq(kq, idx) if isinstance(deep_eq(kc, idx), bool) and isinstance(deep_eq(kq, idx), bool)
                      else z3.And(V.tobool_expr(deep_eq(kc, idx)), V.tobool_expr(deep_eq(kq, idx))), "by-index views keyed by the index value")
            ctx.prove(deep_eq(as_bytes(vn), as_bytes(vc)) if isinstance(vc, (bytes, SymBytes)) else deep_eq(vn, vc),
                      "raw_settings value == raw_settings_by_index value")
            k = concretize(idx)
            if k not in PRETTY:
                for pv in (vp, vq):
                    ctx.prove(deep_eq(as_bytes(pv), as_bytes(vn)) if isinstance(vn, (bytes, SymBytes)) else deep_eq(pv, vn),
                              "no pretty-printer for index %d: pretty value == raw value" % k)
        # cached: second access returns the same object
        ctx.prove(I.getattr(cfg, "raw_settings") is raw and I.getattr(cfg, "settings") is pretty, "views are cached")
        for view in (raw, pretty, pbi):
            try:
                view["SETTING_PORT"] = 1
                ok = False
            except TypeError:
                ok = True
            ctx.prove(ok, "settings mapping rejects mutation with TypeError")
    return body


def h_useragent(cont, tail):
    """128-byte User-Agent without NUL: value continues to its NUL; the next record is parsed from there"""
    def body(ctx):
        if not is_native():
            install_models()
        win = sym_bytes("ua_tail", 3)  # last 3 of the 128 bytes symbolic
        ua = SymBytes([0x41] * 125 + win.cells)
        more = sym_bytes("ua_more", cont)
        for c in more.cells:
            ctx.assume(mkbool(bv(c) != 0) if not isinstance(c, int) else c != 0)
        nxt_val = sym_bytes("next_val", 2)
        block = [UA >> 8, UA & 255, 0, 3, 0, 0x80] + ua.cells + more.cells
        if tail == "record":
            block += [0, 2, 0, 1, 0, 2] + nxt_val.cells + [0, 0]
        elif tail == "term":
            block += [0, 0, 0]
        # tail == "eof": nothing follows (no NUL before the end of data)
        try:
            cfg = call(BeaconConfig, V.unwrap(SymBytes(block)) if is_native() else SymBytes(block))
        except UnwindLimit:
            ctx.prove(False, "decoding an over-long User-Agent that is not NUL-terminated before the end of data does not terminate")
            return
        st = cfg.settings_tuple
        ctx.prove(len(st) >= 1, "User-Agent record decoded")
        if not st:
            return
        last = win.cells[2]
        overlong = mkbool(bv(last) != 0) if not isinstance(last, int) else last != 0
        got = as_bytes(st[0].value)
        if truth(overlong):
            ctx.prove(got.eq(SymBytes(ua.cells + more.cells)), "over-long User-Agent continues up to its NUL")
            if tail == "record":
                ctx.prove(len(st) == 2, "record following the over-long User-Agent is decoded")
                if len(st) == 2:
                    ctx.prove(deep_eq(st[1].index.value, 2) and deep_eq(as_bytes(st[1].value), nxt_val)
                              if isinstance(deep_eq(as_bytes(st[1].value), nxt_val), bool) else
                              z3.And(z3.BoolVal(bool(deep_eq(st[1].index.value, 2))), V.tobool_expr(deep_eq(as_bytes(st[1].value), nxt_val))),
                              "following record decoded exactly")
            else:
                ctx.prove(len(st) == 1, "nothing else decoded")
        else:
            ctx.prove(got.eq(ua), "NUL-terminated 128-byte User-Agent is taken as is")
    return body


def instances(tier):
    q = tier == "quick"
    out = []
    LENS = (0, 1, 2, 4) if q else (0, 1, 2, 3, 4, 6)
    # ("term", k): 00 00 terminator followed by k symbolic trailing bytes (6 and 8: room for a whole record header / record behind it)
    endings = [("term", 0), ("term", 2), ("term", 6), ("term", 8), ("eof", 0), ("trunc", 1), ("trunc", 3), ("trunc", 6), ("trunc", 7)]
    for n in (range(0, 3) if q else range(0, 4)):
        for lens in itertools.product(LENS if n < 3 else (0, 1, 2, 4), repeat=n):
            if n == 3 and len(set(lens)) > 2:
                continue
            for ending in endings:
                if n == 2 and q and ending in (("trunc", 3), ("trunc", 7)) and lens[0] != lens[1]:
                    continue
                if n == 3 and ending[0] == "trunc" and ending[1] != 6:
                    continue
                if ending in (("term", 6), ("term", 8)) and (n > 1 or (n == 1 and q and lens[0] not in (0, 2))):
                    continue
                out.append(Instance("tlv lens=%s end=%s%d" % (list(lens), ending[0], ending[1]), h_tlv(lens, ending),
                                    dict(kind="tlv", lens=list(lens), ending=list(ending), cost=4 ** n)))
    for lens in ((2, 2), (0, 4), (4, 2, 2)) if q else ((2, 2), (0, 4), (4, 2, 2), (1, 1, 1), (2, 0, 2)):
        out.append(Instance("tlv repeated indices allowed lens=%s" % (list(lens),), h_tlv(lens, ("term", 1), distinct=False),
                            dict(kind="tlv_dup", lens=list(lens), cost=50)))
    for n in (1, 2):
        for lens in itertools.product((0, 2, 4) if q else LENS, repeat=n):
            if n == 2 and q and lens[0] != lens[1]:
                continue
            out.append(Instance("names lens=%s" % (list(lens),), h_names(lens, ("term", 1)),
                                dict(kind="names", lens=list(lens), domain=NAME_DOMAIN, cost=1000 ** n), split=14))
    # (continuations beyond one more 128-byte unit: a chunked reader must land exactly behind the NUL)
    for cont in (tuple(range(0, 4)) + (127, 128, 129) if q else tuple(range(0, 6)) + (63, 64, 127, 128, 129, 255, 256, 257, 300)):
        for tail in ("record", "term", "eof"):
            if cont > 5 and tail == "term" and q:
                continue
            out.append(Instance("useragent cont=%d tail=%s" % (cont, tail), h_useragent(cont, tail),
                                dict(kind="useragent", continuation=cont, tail=tail), native_timeout=5, max_loop=300 + 2 * cont))
    return out


def prechecks(tier, seed):
    """interpreter+models vs CPython on the repo's sample beacon config blocks: identical settings in every view"""
    import glob
    import os
    import zipfile

    V.Ctx.cur = V.Ctx()
    install_models()
    n = 0
    blocks = []
    # the repo's tests ship zipped beacons; decode natively, then push the *config block* through the interpreter
    for zp in sorted(glob.glob(os.path.join(os.environ.get("VERIF_REPO", "/repo"), "tests", "beacons", "*.zip")))[:4]:
        try:
            with zipfile.ZipFile(zp) as z:
                data = z.read(z.namelist()[0], pwd=b"dissect.cobaltstrike")
            blocks.append(BeaconConfig.from_bytes(data).config_block)
        except Exception:  # noqa: BLE001
            continue
    for blk in blocks:
        real = BeaconConfig(blk)
        mine = call(BeaconConfig, blk)
        assert len(real.settings_tuple) == len(mine.settings_tuple)
        a = list(real.raw_settings_by_index.items())
        b = [(V.unwrap(k), V.unwrap(v)) for k, v in I.getattr(mine, "raw_settings_by_index").items()]
        assert a == b, "raw_settings_by_index differs between CPython and the interpreter"
        a = list(real.raw_settings.keys())
        b = [V.unwrap(k) for k in I.getattr(mine, "raw_settings").keys()]
        assert a == b
        n += 3
    I.clear_override(BEACON, "OrderedDict")
    I.clear_override(BEACON, "MappingProxyType")
    return dict(validated=n, sample_config_blocks=len(blocks))
