"""C07 — end-to-end: traffic produced by a beacon is decoded to the packets sent (DESIGN.md §4 C07)"""
import itertools
import urllib.parse as _up

from harness.common import *  # noqa: F401,F403
from harness import cfgbuild as CB
from harness import c19 as CL
from symx import models_crypto as MC
from dissect.cobaltstrike import c2, client
from dissect.cobaltstrike.beacon import BeaconConfig
from dissect.cobaltstrike.c_c2 import BeaconMetadata, TaskPacket, CallbackPacket, c2struct
from dissect.cobaltstrike.client import HttpBeaconClient

MC.install()
MC.install_rsa()

INFO = dict(
    files=["dissect/cobaltstrike/c2.py", "dissect/cobaltstrike/client.py", "dissect/cobaltstrike/beacon.py", "dissect/cobaltstrike/c_c2.py"],
    bounds=dict(
        quick="(i) routing: symbolic method (<= 4 bytes) and URI (<= 6 bytes) against 3 configurations incl. one whose get and post verbs are "
        "equal: get transform iff verb == get verb and URI starts with a get URI, else post transform iff verb == post verb and URI starts with "
        "the submit URI, responses -> response transform, anything else ValueError; (ii) sessions driven through the library's OWN client "
        "(HttpBeaconClient.get_task / send_callback, httpx.request replaced by a team-server peer in the harness): every history of <= 3 "
        "steps over {check-in without task, check-in with task, callback}, plus one POST carrying two callbacks, for 3 configurations "
        "(cookie/base64 + print; parameter/netbios + mask/base64 body; header/base64url + prepend/append) and the 3 key-material "
        "variants (RSA private key only, AES random bytes, AES+HMAC keys; RSA key together with only one of the two session keys); task data, callback data (0..3 symbolic bytes: every padding "
        "residue), callback ids and counters symbolic; each recorded message is decoded by a FRESH C2Http and must yield exactly the "
        "metadata / task / callback packets sent, in order; one configuration also goes through the raw HTTP wire form and parse_raw_http",
        thorough="histories of <= 4 steps; 5 configurations; raw wire form for the three configurations without symbolic URL parameters",
    ),
    outside="HTTP serialisation by httpx/h11 and the network, TLS, proxies (the harness renders the recorded request itself); the "
    "cryptographic primitives (AES-CBC, HMAC, SHA-256 uninterpreted; PKCS#1 contract stub) — C05/C06; the transforms as such are C04's "
    "subject: the peer encodes task data with the library's own server-output transform; random choice of domain/URI (one each)",
    stubs=["httpx.request -> team-server peer (records the request, answers with an encrypted task or an empty body)", "AES / HMAC / SHA-256 -> "
           "uninterpreted with their algebraic contracts", "PKCS1_v1_5 -> contract stub", "random -> nondeterministic; time -> constant"],
    assumptions=["z3 decides QF_BV+UF soundly"],
)

I.set_override("dissect.cobaltstrike.client", "time", CL.TimeShim)


def fixed_windows_ver():
    """environment stub for client.random_windows_ver (a random.choice over 7 version strings): one fixed version"""
    return (10, 0, 19041)


fixed_windows_ver.__symx_model__ = True
I.stubs[client.random_windows_ver] = fixed_windows_ver

CONFIGS = {
    "cookie": dict(get=[("_HEADER", b"Accept: */*"), ("BUILD", "metadata"), ("BASE64", True), ("PREPEND", b"SESSIONID="), ("HEADER", b"Cookie")],
                   post=[("_HEADER", b"Content-Type: application/octet-stream"), ("BUILD", "id"), ("PARAMETER", b"id"), ("BUILD", "output"), ("PRINT", True)],
                   recover=[("print", True)]),
    "netbios": dict(get=[("BUILD", "metadata"), ("NETBIOS", True), ("PARAMETER", b"q")],
                    post=[("BUILD", "id"), ("BASE64URL", True), ("HEADER", b"X-Id"), ("BUILD", "output"), ("MASK", True), ("BASE64", True), ("PRINT", True)],
                    recover=[("print", True), ("base64", True), ("mask", True)]),
    "wrapped": dict(get=[("BUILD", "metadata"), ("BASE64URL", True), ("PREPEND", b"u="), ("APPEND", b";x"), ("HEADER", b"X-Auth")],
                    post=[("BUILD", "id"), ("NETBIOSU", True), ("PARAMETER", b"sid"), ("BUILD", "output"), ("BASE64", True), ("PREPEND", b"data="), ("PRINT", True)],
                    recover=[("print", True), ("prepend", 4), ("append", 3), ("netbios", True)]),
    "slash": dict(get=[("BUILD", "metadata"), ("BASE64", True), ("HEADER", b"Cookie")],
                  post=[("BUILD", "id"), ("PARAMETER", b"id"), ("BUILD", "output"), ("PRINT", True)],
                  recover=[("print", True)], domains=b"c2.example.org,/api/v2/", submit=b"/news/"),
    # zero-length arguments (a profile with `append "";` / `prepend "";`): every step is still undone exactly
    "emptyarg": dict(get=[("BUILD", "metadata"), ("BASE64", True), ("APPEND", b""), ("HEADER", b"Cookie")],
                     post=[("BUILD", "id"), ("PREPEND", b""), ("PARAMETER", b"id"), ("BUILD", "output"), ("APPEND", b""), ("PRINT", True)],
                     recover=[("print", True), ("append", 0), ("prepend", 0)]),
    "sameverb": dict(get=[("BUILD", "metadata"), ("BASE64", True), ("HEADER", b"Cookie")],
                     post=[("BUILD", "id"), ("PARAMETER", b"id"), ("BUILD", "output"), ("PRINT", True)],
                     recover=[("print", True)], verb_post=b"GET"),
}


def block(name):
    c = dict(CONFIGS[name])
    return V.unwrap(SymBytes(CB.http_config(get=c["get"], post=c["post"], recover=c["recover"], verb_post=c.get("verb_post", b"POST"),
                                            domains=c.get("domains", b"c2.example.org,/load"), submit=c.get("submit", b"/submit.php"))))


# ----------------------------------------------------------------------------------------------------------------------
# (i) routing
# ----------------------------------------------------------------------------------------------------------------------


def h_routing(cfgname, mlen, ulen):
    def body(ctx):
        if not is_native():
            MC.new_env()
        cfg = call(BeaconConfig, block(cfgname))
        h = call(c2.C2Http, cfg, aes_key=bytes(16), hmac_key=bytes(16))
        method = sym_bytes("method", mlen)
        uri = sym_bytes("uri", ulen)
        req = c2.HttpRequest(method=V.unwrap(method) if not is_native() else V.to_native(method), uri=V.unwrap(uri) if not is_native() else V.to_native(uri),
                             params={}, headers={}, body=b"")
        kind, r = outcome(I.getattr(h, "get_transform_for_http") if not is_native() else h.get_transform_for_http, req)
        gv, pv = h.get_verb, h.submit_verb
        is_get = truth(compare("==", method, gv)) and any(truth(SymBytes(uri.cells[:len(u)]).eq(SymBytes(list(u)))) if len(u) <= ulen else False for u in h.get_uris)
        is_post = truth(compare("==", method, pv)) and (truth(SymBytes(uri.cells[:len(h.submit_uri)]).eq(SymBytes(list(h.submit_uri)))) if len(h.submit_uri) <= ulen else False)
        if is_get:
            ctx.prove(kind == "ok" and r is h.transform_get, "get verb + get URI prefix -> http-get transform")
        elif is_post:
            ctx.prove(kind == "ok" and r is h.transform_submit, "post verb + submit URI prefix -> http-post transform")
        else:
            ctx.prove(kind == "exc" and isinstance(r, ValueError), "unrelated request is rejected with ValueError (got %s)" % (r if kind == "exc" else "a transform"))
        resp = c2.HttpResponse(status=200, reason=b"OK", headers={}, body=b"")
        ctx.prove((h.get_transform_for_http(resp) if is_native() else call(I.getattr(h, "get_transform_for_http"), resp)) is h.transform_response,
                  "responses -> response transform")
    return body


# ----------------------------------------------------------------------------------------------------------------------
# (ii) sessions
# ----------------------------------------------------------------------------------------------------------------------


class FakeResponse:
    __symx_model__ = True

    def __init__(self, content, headers):
        self.content = content
        self.headers = headers
        self.status_code = 200
        self.reason_phrase = "OK"

    def raise_for_status(self):
        return None


FakeResponse.raise_for_status.__symx_model__ = True


def render_raw(method, url_path, params, headers, body):
    """wire form of a recorded request (what httpx would send, minus headers it adds itself)"""
    q = ""
    if params:
        q = "?" + _up.urlencode(params)
    head = V.to_native(method) if not isinstance(method, bytes) else method
    cells = list(head) + [32] + list(url_path.encode() + q.encode()) + list(b" HTTP/1.1\r\n")
    for k, v in headers.items():
        cells += list(seq_cells(k, SymBytes)) + [58, 32] + list(seq_cells(v, SymBytes)) + [13, 10]
    cells += [13, 10] + list(seq_cells(body, SymBytes))
    return V.unwrap(SymBytes(cells))


def h_session(cfgname, keys, history, raw):
    """history: tuple over 'N' (check-in, no task), 'T' (check-in answered with a task), 'C' (callback), 'CC' (one POST with two callbacks)"""
    def body(ctx):
        if not is_native():
            MC.new_env()
        blk = block(cfgname)
        cfg = call(BeaconConfig, blk)
        cl = call(HttpBeaconClient)
        call(I.getattr(cl, "run"), cfg, **dict(CL.RUN_KW, beacon_id=4242))
        priv, _ = CB.rsa_keypair()
        # the decoder under test: a FRESH C2Http per session with one of the three key-material variants
        dcfg = call(BeaconConfig, blk)
        if keys == "rsa":
            dec = call(c2.C2Http, dcfg, rsa_private_key=priv)
        elif keys == "rand":
            dec = call(c2.C2Http, dcfg, aes_rand=cl.aes_rand)
        elif keys == "rsa+aes":
            # more than sufficient: the RSA private key next to only ONE of the two session keys
            dec = call(c2.C2Http, dcfg, rsa_private_key=priv, aes_key=cl.aes_key)
        elif keys == "rsa+hmac":
            dec = call(c2.C2Http, dcfg, rsa_private_key=priv, hmac_key=cl.hmac_key)
        elif keys == "rsa+aes+hmac":
            dec = call(c2.C2Http, dcfg, rsa_private_key=priv, aes_key=cl.aes_key, hmac_key=cl.hmac_key)
        else:
            dec = call(c2.C2Http, dcfg, aes_key=cl.aes_key, hmac_key=cl.hmac_key)
        wire = []  # (kind, message object or raw bytes)
        pending = {}

        def peer(method, url, headers=None, params=None, content=None, verify=None):
            """team server: records the request; answers a check-in with the queued task (encrypted with the session keys and
            encoded with the server-output transform) or with an empty body"""
            path = _up.urlparse(url).path
            req = c2.HttpRequest(method=method, uri=path.encode(), params={k.encode(): (v.encode() if isinstance(v, (str, SymStr)) else v) for k, v in (params or {}).items()},
                                 headers=dict(headers or {}), body=content if content is not None else b"")
            wire.append(("request", req, render_raw(method, path, params, headers or {}, content if content is not None else b"") if raw else None))
            task = pending.pop("task", None)
            if task is None:
                resp = c2.HttpResponse(status=200, reason=b"OK", headers={}, body=b"")
                wire.append(("response", resp, b"HTTP/1.1 200 OK\r\n\r\n" if raw else None))
                return FakeResponse(b"", {})
            enc = call(c2.encrypt_packet, task, aes_key=cl.aes_key, hmac_key=cl.hmac_key)
            out = as_bytes(enc.ciphertext).cells + as_bytes(enc.signature).cells
            treq = call(I.getattr(cl.c2http.transform_response, "transform") if not is_native() else cl.c2http.transform_response.transform,
                        c2.C2Data(output=V.unwrap(SymBytes(out)) if not is_native() else bytes(out)))
            resp = c2.HttpResponse(status=200, reason=b"OK", headers=dict(treq.headers), body=treq.body)
            rawresp = None
            if raw:
                cells = list(b"HTTP/1.1 200 OK\r\n")
                for k, v in treq.headers.items():
                    cells += list(seq_cells(k, SymBytes)) + [58, 32] + list(seq_cells(v, SymBytes)) + [13, 10]
                cells += [13, 10] + list(seq_cells(treq.body, SymBytes))
                rawresp = V.unwrap(SymBytes(cells))
            wire.append(("response", resp, rawresp))
            return FakeResponse(treq.body, dict(treq.headers))

        peer.__symx_model__ = True
        if is_native():
            saved = client.httpx.request
            client.httpx.request = peer
        else:
            I.stubs[client.httpx.request] = peer
        expected = []
        try:
            for k, step in enumerate(history):
                if step in ("N", "T"):
                    if step == "T":
                        tdata = sym_bytes("task%d" % k, 2)
                        tp = call(TaskPacket, epoch=1700000000 + k, total_size=8 + 2, command=call(c2struct.BeaconCommand, 27 + k), size=2,
                                  data=V.unwrap(tdata) if not is_native() else V.to_native(tdata))
                        pending["task"] = tp.dumps() if is_native() else call(I.getattr(tp, "dumps"))
                    got_task = call(I.getattr(cl, "get_task"))
                    if keys.startswith("rsa"):
                        expected.append(("metadata", cl.metadata))
                    if step == "T":
                        expected.append(("task", (1700000000 + k, 27 + k, tdata)))
                        ctx.prove(got_task is not None and deep_eq(as_bytes(got_task.data), tdata), "the client itself decodes the task it was sent")
                    else:
                        ctx.prove(got_task is None, "no task -> get_task() returns None")
                elif step == "C":
                    n = k % 4
                    data = sym_bytes("cb%d" % k, n)
                    cid = sym_int("cbid%d" % k, 0, 40)
                    counter_before = cl.counter
                    call(I.getattr(cl, "send_callback"), call(c2struct.BeaconCallback, cid), V.unwrap(data) if not is_native() else V.to_native(data))
                    expected.append(("callback", (counter_before + 1, cid, data)))
                else:  # one POST carrying two callbacks (the decoder must split them; the client itself sends one per POST)
                    pk = []
                    for j in range(2):
                        data = sym_bytes("cc%d_%d" % (k, j), j + 1)
                        cp = call(CallbackPacket, counter=77 + j, size=j + 1, callback=call(c2struct.BeaconCallback, 0), data=V.unwrap(data) if not is_native() else V.to_native(data))
                        enc = call(c2.encrypt_packet, cp.dumps() if is_native() else call(I.getattr(cp, "dumps")), aes_key=cl.aes_key, hmac_key=cl.hmac_key)
                        pk += seq_cells(enc.dumps() if is_native() else call(I.getattr(enc, "dumps")), SymBytes)
                        expected.append(("callback", (77 + j, 0, data)))
                    req = call(I.getattr(cl.c2http.transform_submit, "transform") if not is_native() else cl.c2http.transform_submit.transform,
                               c2.ClientC2Data(id=b"4242", output=V.unwrap(SymBytes(pk)) if not is_native() else bytes(pk)), request=cl._initial_post_request())
                    wire.append(("request", req, None))
        finally:
            if is_native():
                client.httpx.request = saved
            else:
                I.stubs.pop(client.httpx.request, None)
        # decode the recorded session
        got = []
        for kind, msg, rawmsg in wire:
            src = rawmsg if rawmsg is not None else msg
            try:
                for pkt in list(call(I.getattr(dec, "iter_recover_http"), src) if not is_native() else dec.iter_recover_http(src)):
                    got.append(pkt)
            except Exception as e:  # noqa: BLE001 — an exception while decoding the library's own traffic is a failed obligation
                ctx.prove(False, "decoding a message of the session raises %s: %s" % (type(e).__name__, str(e)[:80]))
                return
        ctx.prove(len(got) == len(expected), "decoder yields %d packets for history %s (got %d)" % (len(expected), "".join(history), len(got)))
        for g, (kind, want) in zip(got, expected):
            if kind == "metadata":
                ok = True
                for f in ("magic", "bid", "pid", "port", "flag", "ip", "ansi_cp", "oem_cp", "ver_major", "ver_minor", "ver_build"):
                    ok = V._and(ok, deep_eq(getattr(g, f) if is_native() else I.getattr(g, f), getattr(want, f)))
                ctx.prove(ok, "decoded metadata == metadata the client sent")
                ctx.prove(deep_eq(as_bytes(g.aes_rand if is_native() else I.getattr(g, "aes_rand")), as_bytes(want.aes_rand)), "decoded aes_rand")
                ctx.prove(deep_eq(as_bytes(g.info if is_native() else I.getattr(g, "info")), as_bytes(want.info)), "decoded info")
            elif kind == "task":
                epoch, cmd, data = want
                ga = (lambda n: getattr(g, n)) if is_native() else (lambda n: I.getattr(g, n))
                ctx.prove(deep_eq(ga("epoch"), epoch) and truth(compare("==", ga("command"), cmd)), "decoded task header")
                ctx.prove(deep_eq(as_bytes(ga("data")), data), "decoded task data == data sent")
            else:
                counter, cid, data = want
                ga = (lambda n: getattr(g, n)) if is_native() else (lambda n: I.getattr(g, n))
                ctx.prove(deep_eq(ga("counter"), counter), "decoded callback counter")
                ctx.prove(truth(compare("==", ga("callback"), cid)), "decoded callback id")
                ctx.prove(deep_eq(ga("size"), len(data.cells)) and deep_eq(as_bytes(ga("data")), data), "decoded callback data == data sent")
    return body


def instances(tier):
    q = tier == "quick"
    out = []
    for cfgname in ("cookie", "sameverb", "wrapped", "slash"):
        for ml, ul in (((3, 5), (4, 6)) if q else ((3, 5), (4, 6), (4, 8), (3, 11))):
            out.append(Instance("routing %s method=%d uri=%d" % (cfgname, ml, ul), h_routing(cfgname, ml, ul), dict(kind="routing", config=cfgname, method_bytes=ml, uri_bytes=ul),
                                split=10))
    hist = [("N",), ("T",), ("T", "C"), ("N", "T", "C"), ("T", "C", "C"), ("T", "T"), ("N", "CC"), ("T", "C", "N")]
    if not q:
        hist += [h for h in itertools.product("NTC", repeat=4) if h[0] in "NT" and "C" in h][:20]
    for cfgname in (("cookie", "netbios", "wrapped", "sameverb", "slash", "emptyarg") if q else tuple(CONFIGS)):
        for keys in ("rsa", "rand", "aes", "rsa+aes", "rsa+hmac", "rsa+aes+hmac"):
            for h in hist:
                if "+" in keys and (cfgname not in ("cookie", "netbios") or h not in ((("T", "C"),) if q else (("T", "C"), ("N", "T", "C"), ("N", "CC")))):
                    continue
                if q and keys == "rsa+aes+hmac":
                    continue
                if q and cfgname != "cookie" and h not in (("T", "C"), ("N", "T", "C"), ("N", "CC")):
                    continue
                if q and cfgname in ("sameverb", "slash", "emptyarg") and keys != "rsa":
                    continue
                # (the raw wire form needs concrete URL parameters: configurations that carry symbolic data in a parameter are decoded as objects)
                raw = cfgname == "slash" or (cfgname in ("cookie", "sameverb") and (not q or h in (("T", "C"), ("N", "T", "C"))))
                i = Instance("session %s keys=%s history=%s%s" % (cfgname, keys, "".join(h), " raw" if raw else ""), h_session(cfgname, keys, h, raw),
                             dict(kind="session", config=cfgname, keys=keys, history=list(h), raw_http=raw, cost=100 * len(h)), split=10)
                i.native_patches = list(CL.NATIVE_PATCHES) + [(client, "random_windows_ver", fixed_windows_ver)]
                out.append(i)
    return out


def prechecks(tier, seed):
    return dict(validated=0)
