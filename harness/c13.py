"""C13 — a profile generated from a beacon configuration is valid and faithful (DESIGN.md §4 C13)"""
import itertools

import lark

from harness.common import *  # noqa: F401,F403
from harness import cfgbuild as CB
from harness import c10 as G
from harness import c11 as D
from symx import models_lark as ML
from symx import models_crypto as MC
from dissect.cobaltstrike import c2profile, beacon
from dissect.cobaltstrike.beacon import BeaconConfig
from dissect.cobaltstrike.c2profile import C2Profile, c2profile_parser as P

MC.install()

INFO = dict(
    files=["dissect/cobaltstrike/c2profile.py", "dissect/cobaltstrike/beacon.py", "dissect/cobaltstrike/c2profile.lark"],
    bounds=dict(
        quick="configuration families built by an independent encoder: (http) sleeptime/jitter, User-Agent with 2 symbolic printable "
        "characters, URIs, verbs, static header with a symbolic value byte, http-get metadata program and http-post id/output programs "
        "whose prepend/append/header/parameter arguments hold 1..2 symbolic bytes over the FULL byte range, server-output (recover) "
        "programs; (process-inject) every execute list of <= 2 entries over all 8 executors incl. offsets, transform-x86/x64 with "
        "symbolic bytes, permissions, min_alloc, allocators; (stage) BeaconGate vectors with 3 symbolic flags over several backgrounds, "
        "cleanup, sleep_mask, data_store_size; (dns) all DNS text settings; (empty) protocol only. For each: generation raises nothing, "
        "the tree conforms to the grammar-table model, every emitted literal is exactly one STRING token, the dictionary computed by the "
        "interpreted as_dict states the configuration's values (text values compared after escape decoding, transform arguments byte "
        "for byte), empty blocks are omitted",
        thorough="arguments of up to 3 symbolic bytes; execute lists of 3 entries; 5 symbolic BeaconGate flags",
    ),
    outside="ORDER of the server-output steps (the configuration stores a recover program with lengths only; order is not asserted either "
    "way — see DESIGN.md); text values containing a backslash (known finding D14a: the builder treats str values as already-escaped "
    "literal text); settings the generator ignores; lark itself (grammar-table model, C10)",
    stubs=["lark Reconstructor -> grammar-table token stream", "SHA-256 -> uninterpreted (public key digest, not an observable here)"],
    assumptions=["z3 decides QF_BV soundly"],
)

I.set_override("dissect.cobaltstrike.c2profile", "Reconstructor", G.ReconModel)

PTR, SHORT, INT = CB.PTR, CB.SHORT, CB.INT
GATE_FIELDS = [f.name for f in beacon.BeaconGateOptions.__fields__]


def cfg_of(cells):
    return call(BeaconConfig, V.unwrap(SymBytes(cells)))


def generate(ctx, cfg):
    """from_beacon_config + the generic obligations; returns (profile, dictionary)"""
    kind, prof = outcome(C2Profile.from_beacon_config, cfg)
    ctx.prove(kind == "ok", "profile generation never fails (got %s: %s)" % (type(prof).__name__, str(prof)[:80]) if kind == "exc" else "generation ok")
    if kind != "ok":
        return None, None
    try:
        stream = ML.model_stream(prof.tree, P) if not is_native() else list(c2profile.Reconstructor(P)._reconstruct(prof.tree))
        ok = True
    except Exception as e:  # noqa: BLE001 — ValueError (model) / lark errors (native)
        ok, stream = False, str(e)[:100]
    ctx.prove(ok, "generated tree conforms to the grammar (every node is a production of its parent's non-terminal): %s" % (stream if not ok else ""))
    if not ok:
        return prof, None
    for t in stream:
        if getattr(t, "type", None) == "STRING":
            ctx.prove(one_string_token(ML.text_of(t)), "emitted literal is exactly one STRING token: %r" % (ML.text_of(t),))
    if is_native():
        text = prof.as_text()
        again = C2Profile.from_text(text)
        ctx.prove(again.tree == prof.tree, "generated text parses back to the same tree")
        return prof, again.as_dict()
    # the text itself: as_text's layout step interpreted over the token stream, re-tokenised by the lexer model (C10)
    text = call(I.getattr(prof, "as_text"))
    got = G.tokenize(seq_cells(text, SymStr))
    ctx.prove(got is not None, "generated text lexes")
    if got is not None:
        want = []
        for it in stream:
            cs = seq_cells(ML.text_of(it), SymStr)
            if getattr(it, "type", "") == "STRING":
                want.append(("STRING", cs))
            elif len(cs) == 1 and chr(cs[0]) in "{};":
                want.append(("PUNCT", chr(cs[0])))
            else:
                want.append(("WORD", "".join(map(chr, cs))))
        ctx.prove(len(got) == len(want), "generated text has the tokens of the generated tree (%d vs %d)" % (len(got), len(want)))
        for g, w in zip(got, want):
            if w[0] == "STRING":
                ctx.prove(g[0] == "STRING" and deep_eq(SymStr(g[1]), SymStr(w[1])), "literal survives the text layout character for character")
            else:
                ctx.prove(g == w, "token %r printed as %r" % (w, g))
    return prof, call(I.getattr(prof, "as_dict"))


def one_string_token(t):
    """bool | SymBool: text is '"' body '"' where no unescaped quote occurs inside and the body does not end in an odd run of backslashes"""
    cells = seq_cells(t, SymStr)
    if len(cells) < 2 or cells[0] != 34 or cells[-1] != 34:
        return False
    run_odd = z3.BoolVal(False)
    conds = []
    for c in cells[1:-1]:
        ce = z3.BitVecVal(c, 21) if isinstance(c, int) else c
        conds.append(z3.Implies(ce == 34, run_odd))
        run_odd = z3.simplify(z3.If(ce == 92, z3.Not(run_odd), z3.BoolVal(False)))
    conds.append(z3.Not(run_odd))
    return mkbool(z3.And(*conds))


def dec(x):
    """escape-decoded bytes of a raw literal text (as reported for options / pairs)"""
    cells = seq_cells(x, SymStr)
    tok = ML.SymToken("STRING", SymStr([34] + list(cells) + [34]))
    return as_bytes(D.decode_literal(tok))


def first(d, key):
    v = d.get(key) if isinstance(d, dict) else None
    return v[0] if v else None


# ----------------------------------------------------------------------------------------------------------------------
# http family
# ----------------------------------------------------------------------------------------------------------------------


def printable(ctx, b, exclude=()):
    for c in b.cells:
        if isinstance(c, int):
            if not 0x20 <= c <= 0x7E or c in exclude:
                raise PathAbort()
        else:
            ctx.assume(mkbool(z3.And(z3.UGE(c, 0x20), z3.ULE(c, 0x7E), *[c != e for e in exclude])))
    return b


def h_http(nargs, variant, backslash=False, focus="arg1"):
    """focus: which part is symbolic on this instance (the others take fixed values): arg1 | arg2 | arg3 | text"""
    def body(ctx):
        if not is_native():
            MC.new_env()
        if focus == "text":
            ua_tail = printable(ctx, sym_bytes("ua", 2), exclude=() if backslash else (92,))
            if backslash:
                c0 = ua_tail.cells[0]
                ctx.assume(mkbool(c0 == 92)) if not isinstance(c0, int) else None
                if isinstance(c0, int) and c0 != 92:
                    raise PathAbort()
            hv = printable(ctx, sym_bytes("hdrval", 1), exclude=(92,))
        else:
            ua_tail, hv = SymBytes(list(b"ok")), SymBytes(list(b"y"))
        fixed = {"arg1": b"\x00A\"", "arg2": b"\\'\xff", "arg3": b"z\n#"}
        a1, a2, a3 = [sym_bytes(nm, nargs) if focus == nm else SymBytes(list(fixed[nm][:max(1, nargs)] if focus != "empty" else b"")) for nm in ("arg1", "arg2", "arg3")]
        if variant == 0:
            get = [("_HEADER", SymBytes(list(b"Accept: x") + hv.cells)), ("BUILD", "metadata"), ("BASE64", True), ("PREPEND", a1), ("APPEND", a2), ("HEADER", b"Cookie")]
            post = [("_PARAMETER", b"k=v"), ("BUILD", "id"), ("NETBIOS", True), ("PARAMETER", b"id"), ("BUILD", "output"), ("MASK", True), ("PREPEND", a3), ("PRINT", True)]
            recover = [("print", True), ("append", 2), ("prepend", 3), ("base64", True)]
            if focus == "rlen":
                # symbolic length (0..4) of a server-output append: the u32 length field of the stored recover program
                rl = sym_int("rlen", 0, 4)
                rl_cells = as_bytes(m_int_to_bytes(rl, 4, "big")).cells
                recover = [("print", True), ("append", SymBytes(rl_cells)), ("prepend", 3), ("base64", True)]
            want_meta = ["base64", ("prepend", a1), ("append", a2), ("header", b"Cookie")]
            want_id = ["netbios", ("parameter", b"id")]
            want_out = ["mask", ("prepend", a3), "print"]
            want_hdr = [(b"Accept", SymBytes(list(b"x") + hv.cells))]
            want_par = [(b"k", b"v")]
        else:
            get = [("BUILD", "metadata"), ("NETBIOSU", True), ("BASE64URL", True), ("PARAMETER", a1)]
            post = [("_HEADER", SymBytes(list(b"X-T: ") + hv.cells)), ("_HEADER", b"X-T: second"), ("_HOSTHEADER", b"Host: h.example"), ("BUILD", "id"), ("PREPEND", a2),
                    ("HEADER", b"X-Id"), ("BUILD", "output"), ("BASE64", True), ("APPEND", a3), ("URI_APPEND", True)]
            recover = [("print", True), ("mask", True), ("netbios", True)]
            want_meta = ["netbiosu", "base64url", ("parameter", a1)]
            want_id = [("prepend", a2), ("header", b"X-Id")]
            want_out = ["base64", ("append", a3), "uri-append"]
            want_hdr = None
            want_par = None
        ua = SymBytes(list(b"Mozilla/5.0 ") + ua_tail.cells)
        cells = CB.http_config(get=get, post=post, recover=recover, ua=ua, domains=b"c2.example.org,/load,c3.example.org,/second", submit=b"/submit.php",
                               verb_get=b"GET", verb_post=b"POST", sleeptime=45000, jitter=37)
        prof, d = generate(ctx, cfg_of(cells))
        if d is None:
            return
        ctx.prove(first(d, "sleeptime") == "45000" and first(d, "jitter") == "37", "sleep time and jitter stated (%r %r)" % (d.get("sleeptime"), d.get("jitter")))
        got_ua = first(d, "useragent")
        ctx.prove(got_ua is not None and deep_eq(dec(got_ua), ua), "user agent stated (decoded literal == configured bytes)")
        ctx.prove(first(d, "http-get.uri") == "/load, /second" and first(d, "http-post.uri") == "/submit.php", "URIs stated (%r %r)" % (d.get("http-get.uri"), d.get("http-post.uri")))
        ctx.prove(first(d, "http-get.verb") == "GET" and first(d, "http-post.verb") == "POST", "verbs stated")
        check_steps(ctx, d.get("http-get.client.metadata"), want_meta, "http-get.client.metadata")
        check_steps(ctx, d.get("http-post.client.id"), want_id, "http-post.client.id")
        check_steps(ctx, d.get("http-post.client.output"), want_out, "http-post.client.output")
        if want_hdr is not None:
            pairs = d.get("http-get.client.header") or []
            ctx.prove(len(pairs) == 1 and deep_eq(dec(pairs[0][0]), as_bytes(want_hdr[0][0])) is True and truth_all(ctx, deep_eq(dec(pairs[0][1]), as_bytes(want_hdr[0][1]))),
                      "static http-get header stated")
            ppairs = d.get("http-post.client.parameter") or []
            ctx.prove(len(ppairs) == 1 and tuple(ppairs[0]) == ("k", "v"), "static http-post parameter stated (%r)" % (ppairs,))
        else:
            pairs = d.get("http-post.client.header") or []
            names = [ML.text_of(p_[0]) for p_ in pairs]
            ctx.prove(names == ["X-T", "X-T", "Host"], "static http-post headers stated, repeated names kept, in order (got %r)" % (names,))
            if names == ["X-T", "X-T", "Host"]:
                ctx.prove(deep_eq(dec(pairs[0][1]), as_bytes(hv)) and ML.text_of(pairs[1][1]) == "second" and ML.text_of(pairs[2][1]) == "h.example",
                          "static http-post header values stated")
        # server output: kinds and argument lengths of the recover program (order deliberately not asserted)
        so = d.get("http-get.server.output") or []
        kinds = sorted((x if isinstance(x, str) else x[0], 0 if isinstance(x, str) else len(as_bytes(x[1]).cells)) for x in so)
        if focus == "rlen" and variant == 0:
            rlv = concretize(rl) if not is_native() else rl
            recover = [("print", True), ("append", rlv), ("prepend", 3), ("base64", True)]
        want_kinds = sorted((k, v if isinstance(v, int) and v is not True else 0) for k, v in recover)
        ctx.prove(kinds == want_kinds, "http-get.server.output states the recover steps with their lengths (got %r want %r)" % (kinds, want_kinds))
    return body


def truth_all(ctx, r):
    """prove-able conjunction helper: returns the SymBool/bool unchanged (kept for readability)"""
    return r


def check_steps(ctx, got, want, what):
    got = list(got or [])
    ctx.prove(len(got) == len(want), "%s lists %d steps (got %r)" % (what, len(want), [g if isinstance(g, str) else g[0] for g in got]))
    for g, w in zip(got, want):
        if isinstance(w, str):
            ctx.prove(isinstance(ML.text_of(g), str) and ML.text_of(g) == w, "%s: step %r (got %r)" % (what, w, g))
        else:
            ok = isinstance(g, tuple) and len(g) == 2 and ML.text_of(g[0]) == w[0]
            ctx.prove(ok, "%s: step %s with one argument (got %r)" % (what, w[0], g))
            if ok:
                ctx.prove(deep_eq(as_bytes(g[1]), as_bytes(w[1])), "%s: argument of %s is byte-exact" % (what, w[0]))


# ----------------------------------------------------------------------------------------------------------------------
# process-inject / stage / dns / empty
# ----------------------------------------------------------------------------------------------------------------------

EXEC_NAMES = {1: "CreateThread", 2: "SetThreadContext", 3: "CreateRemoteThread", 4: "RtlCreateUserThread", 5: "NtQueueApcThread", 8: "NtQueueApcThread-s"}


def base_records():
    return CB.rec(1, SHORT, CB.u16be(0)) + CB.rec(2, SHORT, CB.u16be(4444))


def h_procinj(entries, nbytes):
    def body(ctx):
        if not is_native():
            MC.new_env()
        data = []
        want = []
        for i, ex in enumerate(entries):
            data.append(ex)
            if ex in (6, 7):
                off = 0x10 + i
                mod, fn = b"ntdll", b"RtlUserThreadStart"
                data += [off >> 8, off & 255] + CB.u32be(len(mod)) + list(mod) + CB.u32be(len(fn)) + list(fn)
                want.append(("CreateThread" if ex == 6 else "CreateRemoteThread", b"ntdll!RtlUserThreadStart+0x%x" % off))
            else:
                want.append(EXEC_NAMES[ex])
        data.append(0)
        app, pre = sym_bytes("append", nbytes), sym_bytes("prepend", nbytes)
        tr = CB.u32be(nbytes) + app.cells + CB.u32be(nbytes) + pre.cells
        cells = base_records() + CB.rec(43, SHORT, CB.u16be(64)) + CB.rec(44, SHORT, CB.u16be(32)) + CB.rec(45, INT, CB.u32be(17500)) + \
            CB.rec(46, PTR, tr) + CB.rec(47, PTR, CB.u32be(0) + CB.u32be(0)) + CB.rec(51, PTR, data) + CB.rec(52, SHORT, CB.u16be(1)) + [0, 0]
        prof, d = generate(ctx, cfg_of(cells))
        if d is None:
            return
        ctx.prove(first(d, "process-inject.startrwx") == "true" and first(d, "process-inject.userwx") == "false", "permissions stated")
        ctx.prove(first(d, "process-inject.min_alloc") == "17500", "min_alloc stated")
        ctx.prove(first(d, "process-inject.allocator") == "NtMapViewOfSection", "allocator stated")
        tx = d.get("process-inject.transform-x86") or []
        gotd = {ML.text_of(k): v for k, v in tx} if all(isinstance(x, tuple) for x in tx) else {}
        if nbytes:
            ctx.prove(set(gotd) == {"prepend", "append"}, "transform-x86 states prepend and append (got %r)" % (tx,))
            if set(gotd) == {"prepend", "append"}:
                ctx.prove(deep_eq(as_bytes(gotd["prepend"]), pre), "transform-x86 prepend byte-exact")
                ctx.prove(deep_eq(as_bytes(gotd["append"]), app), "transform-x86 append byte-exact")
        ctx.prove("process-inject.transform-x64.prepend" not in d and "process-inject.transform-x64.append" not in d and "process-inject.transform-x64" not in d,
                  "empty transform-x64 block is omitted")
        ex = list(d.get("process-inject.execute") or [])
        ctx.prove(len(ex) == len(want), "execute list has %d entries (got %r)" % (len(want), ex))
        for g, w in zip(ex, want):
            if isinstance(w, str):
                ctx.prove(ML.text_of(g) == w, "execute entry %s (got %r)" % (w, g))
            else:
                ctx.prove(isinstance(g, tuple) and ML.text_of(g[0]) == w[0] and deep_eq(as_bytes(g[1]), as_bytes(w[1])) is True, "execute entry %s with target (got %r)" % (w[0], g))
    return body


def h_stage(symbolic, background):
    def body(ctx):
        if not is_native():
            MC.new_env()
        vals = []
        on = []
        for n in GATE_FIELDS:
            if n in symbolic:
                c = sym_bytes("f_" + n, 1).cells[0]
                is_on = (c != 0) if isinstance(c, int) else truth(mkbool(c != 0))
            else:
                c = 1 if n in background else 0
                is_on = bool(c)
            vals.append(c)
            if is_on:
                on.append(n)
        cells = base_records() + CB.rec(38, SHORT, CB.u16be(1)) + CB.rec(76, INT, CB.u32be(32)) + CB.rec(78, PTR, vals) + [0, 0]
        prof, d = generate(ctx, cfg_of(cells))
        if d is None:
            return
        ctx.prove(first(d, "stage.cleanup") is not None and first(d, "stage.data_store_size") == "32", "stage options stated")
        listed = [ML.text_of(x) for x in (d.get("stage.beacon_gate") or [])]
        comms, cleanup = {"InternetOpenA", "InternetConnectA"}, {"ExitThread"}
        core = set(GATE_FIELDS) - comms - cleanup
        expanded = set()
        for g in listed:
            expanded |= set(GATE_FIELDS) if g == "All" else comms if g == "Comms" else core if g == "Core" else cleanup if g == "Cleanup" else {g}
        if on:
            ctx.prove(expanded == set(on), "stage.beacon_gate expands to exactly the enabled APIs (got %r want %r)" % (sorted(listed), sorted(on)))
        else:
            ctx.prove(not listed or listed == ["None"], "no API enabled -> no beacon_gate list (got %r)" % (listed,))
    return body


def h_dns():
    def body(ctx):
        if not is_native():
            MC.new_env()
        a = printable(ctx, sym_bytes("a", 2), exclude=(92,))
        pad = lambda b, n: list(b) + [0] * (n - len(b))  # noqa: E731
        cells = CB.rec(1, SHORT, CB.u16be(1)) + CB.rec(2, SHORT, CB.u16be(53)) + CB.rec(19, INT, [8, 8, 4, 4]) + CB.rec(20, INT, CB.u32be(250)) + \
            CB.rec(6, SHORT, CB.u16be(255)) + CB.rec(60, PTR, pad(list(b"doc.bc.") + a.cells, 33)) + CB.rec(61, PTR, pad(b"doc.1a.", 33)) + \
            CB.rec(62, PTR, pad(b"doc.4a.", 33)) + CB.rec(63, PTR, pad(b"doc.tx.", 33)) + CB.rec(64, PTR, pad(b"doc.md.", 33)) + CB.rec(65, PTR, pad(b"doc.po.", 33)) + [0, 0]
        prof, d = generate(ctx, cfg_of(cells))
        if d is None:
            return
        ctx.prove(first(d, "dns-beacon.dns_idle") == "8.8.4.4", "dns_idle stated (%r)" % (d.get("dns-beacon.dns_idle"),))
        ctx.prove(first(d, "dns-beacon.dns_sleep") == "250" and first(d, "dns-beacon.maxdns") == "255", "dns_sleep / maxdns stated")
        got = first(d, "dns-beacon.beacon")
        ctx.prove(got is not None and deep_eq(dec(got), SymBytes(list(b"doc.bc.") + a.cells)), "dns beacon prefix stated")
        for k, v in (("get_A", "doc.1a."), ("get_AAAA", "doc.4a."), ("get_TXT", "doc.tx."), ("put_metadata", "doc.md."), ("put_output", "doc.po.")):
            ctx.prove(first(d, "dns-beacon." + k) == v, "dns-beacon.%s stated (%r)" % (k, d.get("dns-beacon." + k)))
        ctx.prove(not any(k.startswith(("http-get", "http-post", "stage", "process-inject")) for k in d), "blocks without content are omitted (%r)" % (list(d),))
    return body


def h_empty():
    def body(ctx):
        if not is_native():
            MC.new_env()
        prof, d = generate(ctx, cfg_of(base_records() + [0, 0]))
        if d is None:
            return
        ctx.prove(len(prof.tree.children) == 0 and not d, "a configuration without profile-relevant settings gives an empty profile (%r)" % (list(d),))
    return body


def instances(tier):
    q = tier == "quick"
    out = []
    for variant in (0, 1):
        for focus in ("arg1", "arg2", "arg3"):
            for n in ((1, 2) if q else (1, 2, 3)):
                if q and n == 2 and (variant, focus) not in ((0, "arg1"), (1, "arg3")):
                    continue
                out.append(Instance("http variant=%d symbolic %s of %d bytes" % (variant, focus, n), h_http(n, variant, focus=focus),
                                    dict(kind="http", variant=variant, symbolic=focus, arg_bytes=n, cost=9 ** n), split=10))
        if variant == 0:
            out.append(Instance("http variant=0 symbolic server-output append length", h_http(1, 0, focus="rlen"), dict(kind="http", variant=0, symbolic="recover append length 0..4")))
        out.append(Instance("http variant=%d zero-length arguments" % variant, h_http(0, variant, focus="empty"), dict(kind="http", variant=variant, symbolic="none (empty arguments)")))
        out.append(Instance("http variant=%d symbolic text values" % variant, h_http(1, variant, focus="text"), dict(kind="http", variant=variant, symbolic="text", cost=100), split=10))
    out.append(Instance("http user agent with a backslash", h_http(1, 0, True, focus="text"), dict(kind="http", known_finding_region="text value containing a backslash"), expect="D14a", split=8))
    execs = [1, 2, 3, 4, 5, 8, 6, 7]
    lists = [(e,) for e in execs] + ([(6, 8), (8, 1), (7, 5), (2, 4), (1, 3)] if q else list(itertools.product(execs, repeat=2)))
    if not q:
        lists += [(1, 8, 4), (6, 7, 8), (5, 8, 2)]
    for ents in lists:
        out.append(Instance("process-inject execute=%s" % "+".join(map(str, ents)), h_procinj(ents, 2 if ents in ((1,), (8,)) or (len(ents) == 1 and not q) else 1),
                            dict(kind="process-inject", execute=list(ents)), split=8))
    out.append(Instance("process-inject empty transforms", h_procinj((1,), 0), dict(kind="process-inject", transform_bytes=0)))
    gates = [(("VirtualProtectEx", "VirtualAlloc", "ExitThread"), ()), (("InternetOpenA", "InternetConnectA", "CloseHandle"), ("InternetOpenA",)),
             (("VirtualProtectEx", "OpenProcess", "ReadProcessMemory"), tuple(GATE_FIELDS)), ((), ()), ((), tuple(GATE_FIELDS))]
    if not q:
        gates += [(tuple(GATE_FIELDS[i:i + 5]), ()) for i in range(0, len(GATE_FIELDS), 5)]
    for sym, bg in gates:
        out.append(Instance("stage beacon_gate symbolic=%s background=%d" % ("+".join(sym) or "none", len(bg)), h_stage(sym, bg),
                            dict(kind="stage", symbolic=list(sym), background_on=len(bg)), split=8))
    out.append(Instance("dns beacon", h_dns(), dict(kind="dns"), split=6))
    out.append(Instance("empty configuration", h_empty(), dict(kind="empty")))
    return out


def prechecks(tier, seed):
    """the configuration encoder against the real parser + generator on the concrete instance of each family (recorded, not raised)"""
    bad = []
    n = 0
    blk = bytes(CB.http_config())
    try:
        p = C2Profile.from_beacon_config(BeaconConfig(blk))
        d = C2Profile.from_text(p.as_text()).as_dict()
        ok = d.get("http-get.client.metadata") == ["base64", ("prepend", b"SESSIONID="), ("header", b"Cookie")] and d.get("sleeptime") == ["60000"]
    except Exception as e:  # noqa: BLE001
        ok = False
    n += int(ok)
    if not ok:
        bad.append("default http configuration")
    return dict(validated=n, deviations=bad)
