"""C17 — Guardrails-protected configurations are recovered iff the checksum matches (DESIGN.md §4 C17)"""
import io as _io
import itertools

from harness.common import *  # noqa: F401,F403
from harness import cfgbuild as CB
from symx.values import ModelBytesIO
from dissect.cobaltstrike import guardrails, beacon, pe
from dissect.cobaltstrike.beacon import BeaconConfig

GR = "dissect.cobaltstrike.guardrails"

INFO = dict(
    files=["dissect/cobaltstrike/guardrails.py", "dissect/cobaltstrike/beacon.py"],
    bounds=dict(
        quick="patch areas scaled through the module namespace (BEACON_CONFIG_PATCH_SIZE 24/32, GUARD_PATCH_SIZE 16/56); configuration: "
        "protocol record + port record with symbolic values, zero padding; environmental key of 2..4 symbolic bytes (not all zero); "
        "every non-empty subset of the guard options user/computer/domain/local-IP (symbolic values) followed by the checksum setting; "
        "protected area at lead offsets 0..2 with trailing bytes; safety: find_xor_key_candidates replaced by an ARBITRARY list of "
        "two candidate keys and the stored checksum symbolic: a configuration is reported iff payload_checksum(unmasked)+1 == stored; "
        "recovery: with the true key among the candidates the configuration, key, guard settings, checksum and offsets are exact; "
        "payload_checksum == weighted byte sum mod 99999999 for 24..64 symbolic bytes; the real heuristic is additionally run "
        "natively on the concrete witness of every path (not solver-decided)",
        thorough="key lengths 2..5 (single option) / 2..3; lead offsets 0 and 2; checksum over 6144 symbolic bytes; both look-alike scenarios",
    ),
    outside="that the n-gram frequency heuristic ranks the true key first for EVERY configuration and key (statistical; decided only "
    "for the concrete witnesses); patch areas at their real size 6144/2048 with symbolic content; XorEncoded containers (C09/C01); "
    "beacon XOR keys other than 0x2e (the library supports only the default)",
    stubs=["guardrails.find_xor_key_candidates -> nondeterministic candidate list (safety) / list containing the true key (recovery)",
           "BEACON_CONFIG_PATCH_SIZE / GUARD_PATCH_SIZE -> scaled module globals", "io.BufferedReader.peek -> model", "pe.find_mz_offset -> None, justified per path by the validity predicate 'the file contains no DOS header candidate' (assumed explicitly: files here reach 112 bytes, beyond the 64-byte lemma)"],
    assumptions=["z3 decides QF_BV soundly"],
)

OPTS = {"user": (5, 1, 2), "computer": (6, 1, 2), "domain": (7, 1, 2), "local_ip": (8, 2, 4)}  # option, type, length


def scaled(P, G, on):
    if is_native():
        return
    if on:
        I.set_override(GR, "BEACON_CONFIG_PATCH_SIZE", P)
        I.set_override(GR, "GUARD_PATCH_SIZE", G)
    else:
        I.clear_override(GR, "BEACON_CONFIG_PATCH_SIZE")
        I.clear_override(GR, "GUARD_PATCH_SIZE")


def xcells(a, b):
    out = []
    for x, y in zip(a, b):
        if isinstance(x, int) and isinstance(y, int):
            out.append(x ^ y)
        else:
            r = z3.simplify(bv(x) ^ bv(y))
            out.append(r.as_long() if z3.is_bv_value(r) else r)
    return out


def tile(key, n):
    return [key[i % len(key)] for i in range(n)]


def ref_checksum(cells):
    """B: sum of b[i] * (i mod 3 + 1) modulo 99999999"""
    n = 0
    for i, c in enumerate(cells):
        b = SymInt.from_byte(c) if not isinstance(c, int) else c
        n = binop("+", n, binop("*", binop("&", b, 0xFF), i % 3 + 1))  # (& 0xFF: identity on a byte; keeps the terms syntactically aligned)
    return binop("%", n, 99999999)


def protect(P, G, plain, key, opts, opt_vals, checksum, lead, trail, stray=None):
    """independent encoder of a Guardrails-protected area; returns (file cells, layout)"""
    guarded = xcells(plain, tile(key, P))  # masked with the environmental key
    masked_cfg = xcells(guarded, [0x2E] * P)  # and with the static single-byte key
    guard = []
    for name in opts:
        o, t, ln = OPTS[name]
        guard += CB.u16be(o) + CB.u16be(t) + CB.u16be(ln) + list(opt_vals[name])
    guard += CB.u16be(9) + CB.u16be(2) + CB.u16be(4) + list(checksum)
    guard += [0, 0]
    assert len(guard) <= G, (len(guard), G)
    guard += [0] * (G - len(guard))
    rev = masked_cfg[::-1]
    masked_guard = xcells(xcells(guard, tile(rev, G) if G > P else rev[:G]), [0x8A] * G)
    lead_cells = [(0x60 + i) & 0xFF for i in range(lead)]
    if stray is not None:
        # a 12-byte marker look-alike in front of the protected area: reverse(a) ^ b == GUARD_USER start ^ 0x8a
        a = [0x11, 0x22, 0x33, 0x44, 0x55, 0x66]
        st = bytes(x ^ 0x8A for x in guardrails.GUARD_CONFIG_STARTS[0])
        b = [x ^ y for x, y in zip(a[::-1], st)]
        lead_cells[stray:stray + 12] = a + b
    cells = lead_cells + masked_cfg + masked_guard + [0x51] * trail
    return cells, dict(beacon_config_offset=lead, guard_config_offset=lead + P, guard=guard, masked_cfg=masked_cfg, masked_guard=masked_guard)


def build(ctx, P, G, klen, opts, lead, trail, checksum_mode, stray=None):
    proto = sym_bytes("proto", 1)
    port = SymBytes([0x01, 0xBB])
    plain = CB.rec(1, CB.SHORT, [0] + proto.cells) + CB.rec(2, CB.SHORT, port.cells) + [0, 0]
    plain += [0] * (P - len(plain))
    key = sym_bytes("envkey", klen)
    nz = [c != 0 for c in key.cells if not isinstance(c, int)]
    if is_native():
        if not any(key.cells):
            raise PathAbort()
    else:
        ctx.assume(mkbool(z3.Or(*nz)))
    vals = {n: [0x30 + OPTS[n][0]] * OPTS[n][2] for n in opts}
    vals[opts[0]] = vals[opts[0]][:-1] + sym_bytes("opt_" + opts[0], 1).cells  # one symbolic option byte
    good = binop("+", ref_checksum(plain), 1)
    if checksum_mode == "good":
        cks = as_bytes(m_int_to_bytes(good, 4, "big")).cells
    else:
        cks = sym_bytes("stored_checksum", 4).cells
    cells, lay = protect(P, G, plain, key.cells, opts, vals, cks, lead, trail, stray)
    # validity predicate: the masked payload is not itself a configuration obfuscated with one of the default single-byte keys
    # (an environmental key of 2e 2e .. un-masks the block; plain extraction — C01 — then rightly wins over the Guardrails path)
    from harness.c01 import cand
    # ... and the guard marker relation holds at the protected area only (stray markers formed by the symbolic bytes are possible
    # and harmless — they are reported as additional guard areas — but they multiply the paths; C08 covers markers anywhere)
    starts = [bytes(x ^ 0x8A for x in st) for st in guardrails.GUARD_CONFIG_STARTS]
    stray_conds = []
    for o in range(0, len(cells) - 11):
        if o == lead + P - 6 or o == stray:
            continue
        a, b = cells[o:o + 6][::-1], cells[o + 6:o + 12]
        x = xcells(a, b)
        for st in starts:
            e = SymBytes(x).eq(SymBytes(list(st)))
            if e is True:
                raise PathAbort()
            if e is not False:
                stray_conds.append(e.e)
    if stray_conds:
        ctx.assume(mkbool(z3.Not(z3.Or(*stray_conds))))
    assume_no_mz(ctx, cells)
    bad = []
    for k in (0x69, 0x2E, 0x00):
        for i in range(0, len(cells) - 6):  # (anywhere in the file: the guard area and the area boundary included)
            c = cand(cells, k, i)
            if c is True:
                raise PathAbort()
            if c is not False:
                bad.append(c.e)
    if bad:
        ctx.assume(mkbool(z3.Not(z3.Or(*bad))))
    lay.update(plain=plain, key=key, vals=vals, good=good, stored=m_int_from_bytes(SymBytes(cks), "big"))
    return cells, lay


def assume_no_mz(ctx, cells):
    """validity predicate behind the find_mz_offset cut: no offset o holds a DOS header whose e_lfanew (0 < v < 1024) points at a
    readable file header with an x86/x64 Machine value — B.7's definition negated (a Guardrails payload that is ALSO a PE image at
    a scanned offset would take the XorEncoded detection path; outside this check)"""
    n = len(cells)
    conds = []
    for o in range(0, n - 63):
        lf = cells[o + 60:o + 64]
        for v in range(1, min(1024, n - 24 - o - 4 + 1 + 4)):
            fo = o + 4 + v
            if fo + 20 > n:
                break
            want = list(v.to_bytes(4, "little"))
            e1 = SymBytes(lf).eq(SymBytes(want))
            if e1 is False:
                continue
            m = cells[fo:fo + 2]
            e2a = SymBytes(m).eq(SymBytes([0x4C, 0x01]))
            e2b = SymBytes(m).eq(SymBytes([0x64, 0x86]))
            if e2a is False and e2b is False:
                continue
            t = lambda x: z3.BoolVal(x) if isinstance(x, bool) else x.e  # noqa: E731
            if e1 is True and (e2a is True or e2b is True):
                raise PathAbort()
            conds.append(z3.And(t(e1), z3.Or(t(e2a), t(e2b))))
    if conds:
        ctx.assume(mkbool(z3.Not(z3.Or(*conds))))


def with_stub(cands_fn, P, G, f):
    """the key-candidate heuristic is replaced by the harness' candidate list in BOTH modes (at the scaled sizes the real n-gram
    heuristic sees 24..32 bytes and is meaningless; it runs for real, at real size, in prechecks)"""
    scaled(P, G, True)
    real = guardrails.find_xor_key_candidates
    if not is_native():
        I.stubs[real] = cands_fn
        I.stubs[pe.find_mz_offset] = lambda *a, **k: None
    else:
        guardrails.find_xor_key_candidates = lambda fh: [V.to_native(as_bytes(c)) if not isinstance(c, bytes) else c for c in cands_fn(fh)]
    try:
        return f()
    finally:
        scaled(P, G, False)
        if is_native():
            guardrails.find_xor_key_candidates = real
        I.stubs.pop(real, None)
        I.stubs.pop(pe.find_mz_offset, None)


def native_patches(P, G, cands=None):
    out = [(guardrails, "BEACON_CONFIG_PATCH_SIZE", P), (guardrails, "GUARD_PATCH_SIZE", G)]
    return out


def h_recover(P, G, klen, opts, lead, trail, stray=None):
    """the true key is among the candidates (in the real code: ranked by the heuristic; natively the real heuristic runs)"""
    def body(ctx):
        cells, lay = build(ctx, P, G, klen, opts, lead, trail, "good", stray)
        decoy = SymBytes([0x11, 0x22, 0x33, 0x44, 0x55, 0x66][:klen])  # a wrong candidate ranked first
        # ... which fails the checksum: the checksum is the ONLY acceptance criterion, so a wrong key whose unmasked bytes happen to
        # have the stored weighted sum is legitimately accepted (the solver finds such collisions, e.g. key 11 20 33 44 vs 11 22 33 44)
        wrong = xcells(xcells(lay["masked_cfg"], [0x2E] * P), tile(decoy.cells, P))
        collide = compare("==", binop("+", ref_checksum(wrong), 1), lay["good"])
        if is_native():
            if collide:
                raise PathAbort()
        else:
            ctx.assume(mkbool(z3.Not(tobool_expr(collide))) if not isinstance(collide, bool) else (not collide))
        holder = {}

        def cands(fh):
            # an arbitrary other candidate first, then the true key
            return [V.unwrap(decoy), V.unwrap(lay["key"])]

        def run():
            return outcome(BeaconConfig.from_file, ModelBytesIO(SymBytes(cells)) if not is_native() else _io.BytesIO(bytes(cells)))
        kind, r = with_stub(cands, P, G, run)
        ctx.prove(kind == "ok", "protected configuration is recovered (got %s)" % (r if kind == "exc" else "ok"))
        if kind != "ok":
            return
        g = r.guardrails
        ctx.prove(g is not None, "guardrails metadata attached")
        ctx.prove(deep_eq(as_bytes(r.config_block), SymBytes(lay["plain"])), "recovered configuration == original (byte for byte)")
        st = [(s.index.value, s.length, s.value) for s in r.settings_tuple]
        ctx.prove(len(st) == 2 and deep_eq(as_bytes(st[1][2]), SymBytes(lay["plain"][14:16])), "decoded settings are the original ones")
        pk = as_bytes(g.payload_xor_key)
        # the reported key must unmask to the original configuration (a decoy that happens to be equivalent is the same key up to tiling)
        ctx.prove(deep_eq(SymBytes(xcells(xcells(lay["masked_cfg"], [0x2E] * P), tile(pk.cells, P))), SymBytes(lay["plain"])),
                  "reported environmental key unmasks the configuration")
        ctx.prove(g.beacon_config_offset == lay["beacon_config_offset"] and g.guard_config_offset == lay["guard_config_offset"],
                  "offsets of the protected areas (got %r/%r)" % (g.beacon_config_offset, g.guard_config_offset))
        ctx.prove(deep_eq(g.checksum, lay["good"]), "stored checksum reported")
        ctx.prove(deep_eq(as_bytes(g.masked_beacon_config), SymBytes(lay["masked_cfg"])), "masked configuration reported")
        ctx.prove(deep_eq(as_bytes(g.unmasked_guard_config), SymBytes(lay["guard"])), "guard configuration unmasked exactly")
        got = [(concretize(s.option.value) if not is_native() else int(s.option), as_bytes(s.value)) for s in g.settings]
        want = [(OPTS[n][0], SymBytes(lay["vals"][n])) for n in opts] + [(9, SymBytes(as_bytes(m_int_to_bytes(lay["good"], 4, "big")).cells))]
        ctx.prove(len(got) == len(want) and all(a[0] == b[0] for a, b in zip(got, want)), "guard settings: options in order (got %r)" % [a[0] for a in got])
        for a, b in zip(got, want):
            ctx.prove(deep_eq(a[1], b[1]), "guard setting %d value" % b[0])
        ctx.prove(r.xorkey == b"\x2e", "static XOR key reported")
    return body


def h_safety(P, G, klen, opts, lead):
    """arbitrary candidate keys, arbitrary stored checksum: a configuration is reported iff the checksum matches"""
    def body(ctx):
        cells, lay = build(ctx, P, G, klen, opts, lead, 0, "symbolic")
        c1 = sym_bytes("cand1", 2)
        c2 = sym_bytes("cand2", klen)

        def cands(fh):
            return [V.unwrap(c1), V.unwrap(c2)]

        def run():
            return list(call(guardrails.iter_guardrail_configs_with_beacon, ModelBytesIO(SymBytes(cells)) if not is_native() else _io.BytesIO(bytes(cells))))
        got = with_stub(cands, P, G, run)
        mine = [g for g in got if g.guard_config_offset == lay["guard_config_offset"]]
        ctx.prove(len(mine) == 1, "the protected area is reported exactly once")
        if len(mine) != 1:
            return
        g = mine[0]
        guarded = xcells(lay["masked_cfg"], [0x2E] * P)
        ctx.prove(deep_eq(g.checksum, lay["stored"]), "the checksum extracted from the guard configuration is the stored one")
        if g.unmasked_beacon_config is not None:
            blk = as_bytes(g.unmasked_beacon_config)
            # (two obligations so that no query mixes the weighted sum with the un-masking algebra: the checksum the scanner
            # extracted is the stored one; the reported block satisfies that extracted checksum)
            ctx.prove(compare("==", binop("+", ref_checksum(blk.cells), 1), g.checksum),
                      "a configuration is only reported when its checksum + 1 equals the stored checksum")
            pk = as_bytes(g.payload_xor_key)
            ctx.prove(deep_eq(blk, SymBytes(xcells(guarded, tile(pk.cells, P)))), "reported configuration == masked area unmasked with the reported key")
        else:
            ctx.prove(g.payload_xor_key is None, "no configuration -> no key")
    return body


def h_metadata_only(P, G, klen, opts):
    """iter_guardrail_configs_with_beacon: on a mismatch the guard metadata alone is reported"""
    def body(ctx):
        cells, lay = build(ctx, P, G, klen, opts, 0, 0, "symbolic")
        ctx.assume(compare("!=", lay["stored"], lay["good"])) if not is_native() else None
        if is_native() and lay["stored"] == lay["good"]:
            raise PathAbort()

        def cands(fh):
            return [V.unwrap(lay["key"])]  # only the true key is tried: its checksum is `good` != stored

        def run():
            return list(call(guardrails.iter_guardrail_configs_with_beacon, ModelBytesIO(SymBytes(cells)) if not is_native() else _io.BytesIO(bytes(cells))))
        got = with_stub(cands, P, G, run)
        # (the symbolic bytes may satisfy the marker relation at other offsets too: such extra reports are not excluded by the
        # property; the protected area itself must be among them)
        mine = [g for g in got if g.guard_config_offset == lay["guard_config_offset"]]
        ctx.prove(len(mine) == 1, "the protected area is reported exactly once (got %d of %d)" % (len(mine), len(got)))
        for g in got:
            ctx.prove(g.unmasked_beacon_config is None or g.guard_config_offset != lay["guard_config_offset"], "no configuration for the mismatching area")
        if len(mine) == 1:
            g = mine[0]
            ctx.prove(g.unmasked_beacon_config is None and g.payload_xor_key is None, "checksum mismatch: no configuration, no key")
            ctx.prove(deep_eq(g.checksum, lay["stored"]), "stored checksum reported")
            ctx.prove(len(g.settings) == len(opts) + 1, "guard settings still reported")
    return body


def h_heuristic(klen, nsym, P=None, rich=0, keysym=None):
    """the REAL key-candidate heuristic at the REAL patch size (no stub, no scaling), symbolic environmental key: for a
    zero-padded configuration the candidates offered up to key length k contain the true key (composes with h_recover, where the
    true key among the candidates implies recovery). collections.Counter -> SymCounter (equality classes of n-grams decided)."""
    def body(ctx):
        Pz = P or guardrails.BEACON_CONFIG_PATCH_SIZE
        symc = sym_bytes("content", nsym).cells if nsym else []
        # configuration family: protocol + port records, then a settings area of `rich` bytes (a long text setting: constant
        # filler, so the settings area is itself a strong n-gram competitor), then zero padding up to the patch size
        plain = CB.rec(1, CB.SHORT, [0, 8]) + CB.rec(2, CB.SHORT, ([0x01, 0xBB] if not nsym else [0x01] + symc[:1]))
        if rich:
            plain += CB.rec(9, CB.PTR, [0x41] * int(rich))
        plain += [0, 0]
        plain += [0] * (Pz - len(plain))
        key = sym_bytes("envkey", klen if keysym is None else keysym)
        if keysym is not None:
            # long keys: the first `keysym` bytes symbolic, the rest concrete and pairwise distinct (keeps the n-gram classes decidable)
            key = SymBytes(key.cells + [(0x11 + 7 * i) % 251 + 1 for i in range(klen - keysym)])
        # validity predicate: the key is primitive (no proper period: a key abab IS the 2-byte key ab) and has no zero byte
        # pattern that makes a shorter candidate an equivalent mask
        conds = []
        for per in range(1, klen):
            if klen % per == 0:
                conds.append(z3.Or(*[bv(key.cells[i]) != bv(key.cells[i % per]) for i in range(per, klen)]))
        if is_native():
            kb = bytes(key.cells)
            if any(klen % per == 0 and kb == kb[:per] * (klen // per) for per in range(1, klen)):
                raise PathAbort()
        elif conds:
            ctx.assume(mkbool(z3.And(*conds)))
        guarded = xcells(plain, tile(key.cells, Pz))
        fh = ModelBytesIO(SymBytes(guarded)) if not is_native() else _io.BytesIO(bytes(guarded))
        real = guardrails.find_xor_key_candidates
        if not is_native():
            import collections
            I.stubs[collections.Counter] = models_lib.SymCounter
        try:
            got = []
            for c in m_iter(call(real, fh)):
                c = as_bytes(c)
                if len(c.cells) > klen:
                    break
                got.append(c)
                if len(c.cells) == klen and c.eq(key) is True:
                    break  # offered: the consumer's checksum test stops here (h_recover)
        finally:
            if not is_native():
                I.stubs.pop(collections.Counter, None)
        same = [c for c in got if len(c.cells) == klen]
        ctx.prove(len(same) >= 1, "a candidate of the key's length is offered")
        hit = False
        for c in same:
            e = c.eq(key)
            if e is True:
                hit = True
                break
        if not hit:
            es = [tobool_expr(c.eq(key)) for c in same]
            es = [z3.BoolVal(x) if isinstance(x, bool) else x for x in es]
            hit = mkbool(z3.Or(*es)) if es else False
        ctx.prove(hit, "the true environmental key is among the candidates of its length (real heuristic, %d-byte area, %d candidates)" % (Pz, len(same)))
    return body


def h_checksum(n):
    def body(ctx):
        data = sym_bytes("data", n)
        got = call(guardrails.payload_checksum, V.unwrap(data))
        ctx.prove(compare("==", got, ref_checksum(data.cells)), "payload_checksum == sum b[i]*(i mod 3 + 1) mod 99999999 over %d bytes" % n)
    return body


def instances(tier):
    q = tier == "quick"
    out = []
    names = list(OPTS)
    subsets = [c for k in range(1, 5) for c in itertools.combinations(names, k)]
    for opts in subsets:
        G = 8 * sum(1 for n in opts if n != "local_ip") + (10 if "local_ip" in opts else 0) + 10 + 2
        G = max(16, G + (G % 2))
        for P in ((24,) if q or len(opts) > 1 else (24, 32)):
            klens = (2, 3) if q and opts == ("user",) else ((2,) if q else ((2, 3, 4, 5) if len(opts) == 1 else (2, 3)))
            for klen in klens:
                for lead, trail in (((0, 0), (2, 3)) if q and opts in (("local_ip",), tuple(names)) else ((0, 0),) if q else ((0, 0), (2, 3))):
                    i = Instance("recover P=%d G=%d key=%d opts=%s lead=%d" % (P, G, klen, "+".join(opts), lead), h_recover(P, G, klen, opts, lead, trail),
                                 dict(kind="recover", P=P, G=G, keylen=klen, options=list(opts), lead=lead, trail=trail, cost=50), split=8, max_loop=4000)
                    i.native_patches = native_patches(P, G)
                    out.append(i)
        if opts in (("user",), ("local_ip",), ("computer", "domain"), tuple(names)) or not q:
            for klen in ((2,) if q else (2, 3)):
                i = Instance("safety P=24 G=%d key=%d opts=%s" % (G, klen, "+".join(opts)), h_safety(24, G, klen, opts, 0),
                             dict(kind="safety", P=24, G=G, keylen=klen, options=list(opts), cost=500), split=8, max_loop=4000)
                i.native_patches = native_patches(24, G)
                out.append(i)
    # a marker look-alike shortly in front of the protected area (its own 'guard area' overlaps the real marker): the scan must
    # go on behind the look-alike and still find the protected area
    for opts, lead, st in (((("user", "domain"), 32, 19),) if q else ((tuple(names), 40, 20), (("user", "domain"), 32, 19))):
        G = 8 * sum(1 for n in opts if n != "local_ip") + (10 if "local_ip" in opts else 0) + 10 + 2
        i = Instance("recover behind a marker look-alike opts=%s lead=%d stray=%d" % ("+".join(opts), lead, st), h_recover(24, G, 2, opts, lead, 2, stray=st),
                     dict(kind="recover_stray", P=24, G=G, options=list(opts), lead=lead, stray_marker_at=st, cost=500), split=8, max_loop=4000)
        i.native_patches = native_patches(24, G)
        out.append(i)
    for opts in (("user",), tuple(names)):
        G = 20 if len(opts) == 1 else 48
        i = Instance("metadata only on mismatch opts=%s" % "+".join(opts), h_metadata_only(24, G, 2, opts), dict(kind="mismatch", options=list(opts)), max_loop=4000)
        i.native_patches = native_patches(24, G)
        out.append(i)
    # the real n-gram heuristic at the real patch size with a symbolic key (zero-padded configuration family)
    # the REAL n-gram heuristic (no stub) with a symbolic key: zero-padded configuration families at the real patch size, and the
    # longest documented key (256 bytes) on a 768-byte area
    PZ = guardrails.BEACON_CONFIG_PATCH_SIZE
    fam = ((3, 0, PZ, 0, None), (3, 0, PZ, 2100, None), (256, 0, 768, 0, 1)) if q else \
          ((2, 0, PZ, 0, None), (3, 0, PZ, 0, None), (4, 0, PZ, 0, None), (5, 0, PZ, 0, None), (3, 0, PZ, 2100, None), (3, 0, PZ, 2900, None),
           (255, 0, 768, 0, 1), (256, 0, 768, 0, 2))
    for klen, nsym, Pz, rich, keysym in fam:
        out.append(Instance("real heuristic offers the true key: key=%d area=%d settings=%d symbolic content bytes=%d" % (klen, Pz, rich, nsym),
                            h_heuristic(klen, nsym, Pz, rich, keysym),
                            dict(kind="heuristic", area=Pz, keylen=klen, settings_bytes=rich, symbolic_content_bytes=nsym,
                                 symbolic_key_bytes=klen if keysym is None else keysym, cost=800), split=8, max_loop=20000))
    for n in ((0, 1, 5, 24, 64) if q else (0, 1, 2, 3, 5, 24, 64, 512, 6144)):
        out.append(Instance("payload_checksum over %d bytes" % n, h_checksum(n), dict(kind="checksum", bytes=n), max_loop=7000))
    return out


def prechecks(tier, seed):
    """the encoder against the real extractor at the REAL patch sizes, with the real key-candidate heuristic. What the
    extractor does is decided by the instances: a deviation here is recorded in the evidence, not raised."""
    import random

    rnd = random.Random(seed)
    n = 0
    bad = []
    for opts in (("user",), ("computer", "local_ip"), tuple(OPTS)):
        for klen in (2, 5, 15, 64):
            P, G = guardrails.BEACON_CONFIG_PATCH_SIZE, guardrails.GUARD_PATCH_SIZE
            plain = CB.rec(1, CB.SHORT, [0, 8]) + CB.rec(2, CB.SHORT, CB.u16be(443)) + CB.rec(8, CB.PTR, list(b"c2.example.org,/x") + [0] * 239) + [0, 0]
            plain += [0] * (P - len(plain))
            key = [rnd.randrange(1, 256) for _ in range(klen)]
            vals = {nm: [rnd.randrange(256) for _ in range(OPTS[nm][2])] for nm in opts}
            good = (guardrails.payload_checksum(bytes(plain)) + 1)
            cells, lay = protect(P, G, plain, key, opts, vals, list(good.to_bytes(4, "big")), 100, 50)
            try:
                r = BeaconConfig.from_bytes(bytes(cells))
                ok = (r.config_block == bytes(plain) and r.guardrails.payload_xor_key == bytes(key) and r.guardrails.beacon_config_offset == 100
                      and r.guardrails.checksum == good and [int(s.option) for s in r.guardrails.settings] == [OPTS[nm][0] for nm in opts] + [9])
            except Exception:  # noqa: BLE001
                ok = False
            bad2, _ = protect(P, G, plain, key, opts, vals, list(((good + 5) & 0xFFFFFFFF).to_bytes(4, "big")), 100, 50)
            try:
                BeaconConfig.from_bytes(bytes(bad2))
                ok2 = False
            except ValueError:
                ok2 = True
            except Exception:  # noqa: BLE001
                ok2 = False
            n += int(ok) + int(ok2)
            if not (ok and ok2):
                bad.append(dict(options=list(opts), keylen=klen, recovered=ok, mismatch_rejected=ok2))
    return dict(validated=n, real_size_deviations=bad)
