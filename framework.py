"""Check runner: schedules harness instances over worker processes, explores every path of each instance with the
symbolic interpreter, replays counterexamples natively, validates sampled passing paths against the implementation,
applies the known-findings protocol and writes evidence/<id>.json.

Exit codes: 0 = every obligation within the stated bounds discharged; 1 = replayed violation not listed as a known
finding (prints `VIOLATION property=<id> replay=<path>`); 3 = harness error / inconclusive (never a verdict).
"""
from __future__ import annotations

import concurrent.futures as cf
import hashlib
import json
import multiprocessing as mp
import os
import random
import signal
import sys
import time
import traceback

VERIF = os.path.dirname(os.path.abspath(__file__))
REPO = os.environ.get("VERIF_REPO", "/repo")

EXIT_OK, EXIT_VIOLATION, EXIT_ERROR = 0, 1, 3
SLICE_S = float(os.environ.get("VERIF_SLICE_S", "12"))


class Instance:
    """one harness instance = one bounded symbolic query family (a concrete skeleton with symbolic data)

    body(ctx): harness body, written against the symx value layer so that it runs both symbolically and natively
    params:    JSON-able description (sizes, skeleton ...) for evidence
    expect:    None, or the id of an OPEN known finding whose region this instance is restricted to (a violation here
               is reported as KNOWN-FINDING; absence of a violation prints nothing)
    setup:     optional callable run in the worker before exploration (returns an Interp / state passed to body)
    split:     decision depth up to which alternative branches are handed back to the scheduler (path-level
               parallelism inside one instance)
    """

    def __init__(self, name, body, params=None, expect=None, max_paths=200000, split=0, native_timeout=20,
                 max_loop=None, validate_paths=2, bound="", native_patches=(), timeout=900):
        self.timeout = timeout
        self.native_patches = list(native_patches)
        self.name = name
        self.body = body
        self.params = params or {}
        self.expect = expect
        self.max_paths = max_paths
        self.split = split
        self.native_timeout = native_timeout
        self.max_loop = max_loop
        self.validate_paths = validate_paths
        self.bound = bound


# ----------------------------------------------------------------------------------------------------------------------
# worker side
# ----------------------------------------------------------------------------------------------------------------------

_HARNESS = None  # module
_INSTANCES = None


def _load(pid, tier):
    global _HARNESS, _INSTANCES
    if _HARNESS is None:
        sys.path.insert(0, REPO)
        sys.path.insert(0, VERIF)
        import importlib

        _HARNESS = importlib.import_module("harness.%s" % pid.lower())
        _INSTANCES = _HARNESS.instances(tier)
    return _HARNESS, _INSTANCES


class _Timeout(BaseException):
    pass


def _alarm(signum, frame):
    raise _Timeout()


def model_inputs(ctx, model):
    out = {}
    for name, e in ctx.inputs.items():
        v = model.eval(e, model_completion=True)
        try:
            out[name] = v.as_signed_long() if name in ctx.signed_inputs else v.as_long()
        except Exception:
            out[name] = str(v)
    return out


def run_native(inst, inputs, timeout):
    """run the harness body natively on concrete inputs. Returns (status, detail):
    'violated' (property fails on the real code), 'holds', 'abort' (inputs outside the harness' validity predicate),
    'hang' (wall-clock bound exceeded), 'error'"""
    import symx
    from symx import values as V

    ctx = V.NativeCtx(inputs)
    old = V.Ctx.cur
    V.Ctx.cur = ctx
    signal.signal(signal.SIGALRM, _alarm)
    signal.alarm(int(timeout))
    saved = []
    try:
        for obj, attr, val in inst.native_patches:
            saved.append((obj, attr, getattr(obj, attr)))
            setattr(obj, attr, val)
        inst.body(ctx)
        return "holds", ""
    except V.Violation as v:
        return "violated", v.what
    except V.PathAbort:
        return "abort", ""
    except _Timeout:
        return "hang", "native run exceeded %ds" % timeout
    except V.Unsupported as e:
        return "error", "Unsupported in native mode: %s" % e
    except BaseException as e:  # uncaught exception of the code under test
        return "exception", "%s: %s" % (type(e).__name__, e)
    finally:
        signal.alarm(0)
        for obj, attr, val in reversed(saved):
            setattr(obj, attr, val)
        V.Ctx.cur = old


def run_native_clean(pid, tier, inst, inputs, timeout):
    """native replay in a FRESH interpreter: used when the in-process replay does not confirm a counterexample, because state
    leaked by the code under test (module / class level caches mutated during earlier symbolic paths) lives on in the worker"""
    import subprocess
    import tempfile

    with tempfile.NamedTemporaryFile("w", suffix=".json", delete=False) as f:
        json.dump(dict(property=pid, tier=tier, instance=inst.name, inputs=inputs), f)
        path = f.name
    try:
        env = dict(os.environ, PYTHONDONTWRITEBYTECODE="1")
        out = subprocess.run([sys.executable, "-B", os.path.join(VERIF, "replay.py"), path], capture_output=True, text=True, timeout=timeout + 60, env=env)
        for line in out.stdout.splitlines():
            if line.startswith("native result:"):
                parts = line[len("native result:"):].strip().split(" ", 1)
                return parts[0], (parts[1] if len(parts) > 1 else "") + " [clean interpreter]"
        return "error", "clean replay produced no result: %s" % out.stderr[-200:]
    except Exception as e:  # noqa: BLE001
        return "error", "clean replay failed: %r" % (e,)
    finally:
        os.unlink(path)


def explore_task(pid, tier, idx, prefix, seed):
    """explore the subtree below `prefix` of instance idx; returns a result dict"""
    t0 = time.time()
    mod, insts = _load(pid, tier)
    inst = insts[idx]
    import symx
    from symx import values as V
    from symx.interp import Interp

    rng = random.Random((seed, idx, tuple(prefix)).__hash__())
    res = dict(idx=idx, name=inst.name, paths=0, aborted=0, queries=0, solver_time=0.0, proves=0, new_tasks=[],
               violation=None, error=None, validated=0, encoded=[], samples=[], notes=[])
    work = [list(prefix)]
    first = True
    deadline = t0 + inst.timeout
    if os.environ.get("VERIF_TRACE"):
        with open(os.environ["VERIF_TRACE"], "a") as tf:
            tf.write("%d start %s prefix=%d\n" % (os.getpid(), inst.name, len(prefix)))
    if inst.max_loop:
        Interp.MAX_LOOP = inst.max_loop
    while work:
        p = work.pop()
        ctx = V.Ctx(p)
        V.Ctx.cur = ctx
        viol = None
        try:
            try:
                inst.body(ctx)
                res["paths"] += 1
            except V.PathAbort:
                res["aborted"] += 1
            except V.Violation as v:
                viol = (v.what, v.model)
            except V.UnwindLimit as e:
                if getattr(inst, "unwind_is_violation", False) and ctx._check():
                    # termination is the property: an exhausted unwinding bound is a violation candidate, decided by
                    # replaying the solver's inputs on the real code under a wall-clock bound
                    viol = ("no termination within the unwinding bound: %s" % e, ctx.solver.model())
                else:
                    res["error"] = "unwinding limit reached (inconclusive): %s" % e
            except V.Unsupported as e:
                res["error"] = "unsupported construct (inconclusive): %s\n%s" % (e, traceback.format_exc(limit=12))
            except (KeyboardInterrupt, SystemExit, MemoryError):
                raise
            except BaseException as e:
                # uncaught exception escaping the harness body: violation candidate, confirmed by native replay
                if ctx._check():
                    viol = ("uncaught %s: %s" % (type(e).__name__, str(e)[:200]), ctx.solver.model())
                    res["notes"].append(traceback.format_exc(limit=8))
        finally:
            res["queries"] += ctx.nq
            res["solver_time"] += ctx.tq
            res["proves"] += ctx.proves
            res["notes"].extend(ctx.notes)
        if res["error"]:
            break
        if viol is not None:
            what, model = viol
            inputs = model_inputs(ctx, model)
            status, detail = run_native(inst, inputs, inst.native_timeout)
            if status not in ("violated", "hang"):
                s2, d2 = run_native_clean(pid, tier, inst, inputs, inst.native_timeout)
                if s2 in ("violated", "hang", "exception"):
                    status, detail = s2, d2
            res["violation"] = dict(what=what, inputs=inputs, native=status, native_detail=detail, prefix=list(p))
            break
        # validate sampled passing paths against the implementation
        if (first or rng.random() < 0.02) and res["validated"] < inst.validate_paths and ctx.proves:
            first = False
            if ctx._check():
                inputs = model_inputs(ctx, ctx.solver.model())
                status, detail = run_native(inst, inputs, inst.native_timeout)
                if status in ("holds", "abort"):
                    res["validated"] += 1 if status == "holds" else 0
                    if len(res["samples"]) < 2:
                        res["samples"].append(dict(instance=inst.name, inputs=_short(inputs), native=status))
                else:
                    res["error"] = (
                        "model/implementation disagreement on a passing path: symbolic run discharged every "
                        "obligation but the native run gave %s (%s); inputs=%r" % (status, detail, _short(inputs))
                    )
                    break
        for q in ctx.pending:
            if len(q) <= inst.split and len(prefix) < inst.split:
                res["new_tasks"].append(q)
            else:
                work.append(q)
        if res["paths"] + res["aborted"] > inst.max_paths:
            res["error"] = "path budget exceeded (inconclusive)"
            break
        if len(work) > 1 and time.time() - t0 > SLICE_S:
            # dynamic load balancing: after a time slice hand the unexplored sub-trees back to the scheduler
            res["new_tasks"].extend(work)
            work = []
            break
        if time.time() > deadline and work:
            res["error"] = "instance time budget of %ds exceeded with %d branches unexplored (inconclusive)" % (inst.timeout, len(work))
            break
    from symx.interp import Interp as _I

    res["second"] = dict(V.SECOND["stats"])
    V.SECOND["stats"].clear()
    if _I.cur is not None:
        res["encoded"] = sorted(_I.cur.encoded)
    res["wall"] = time.time() - t0
    return res


def _short(inputs, n=40):
    items = list(inputs.items())
    d = dict(items[:n])
    if len(items) > n:
        d["..."] = "%d more" % (len(items) - n)
    return d


# ----------------------------------------------------------------------------------------------------------------------
# parent side
# ----------------------------------------------------------------------------------------------------------------------


def load_known():
    p = os.path.join(VERIF, "known_findings.json")
    if not os.path.exists(p):
        return []
    return json.load(open(p))["findings"]


def open_findings(pid):
    return [f for f in load_known() if f["property"] == pid and f.get("status") == "open"]


def source_hashes(files):
    out = {}
    for f in files:
        p = os.path.join(REPO, f)
        if os.path.exists(p):
            out[f] = hashlib.sha256(open(p, "rb").read()).hexdigest()[:16]
    return out


def run_check(pid, tier, jobs=None):
    t0 = time.time()
    if tier == "thorough":
        os.environ.setdefault("VERIF_SECOND_SOLVER", "1")  # read by the worker processes (symx.values.SECOND)
    seed = int(os.environ.get("VERIF_SEED", "0") or 0)
    jobs = jobs or int(os.environ.get("VERIF_JOBS", "0") or 0) or min(16, os.cpu_count() or 4)
    sys.path.insert(0, REPO)
    sys.path.insert(0, VERIF)
    import importlib

    try:
        mod = importlib.import_module("harness.%s" % pid.lower())
        insts = mod.instances(tier)
    except BaseException:
        print("HARNESS-ERROR property=%s cannot build harness instances:\n%s" % (pid, traceback.format_exc()))
        return EXIT_ERROR
    pre = None
    pre_error = None
    if hasattr(mod, "prechecks"):
        # translator / model validation (concrete differential runs) — any failure is a harness error
        try:
            pre = mod.prechecks(tier, seed)
        except BaseException:
            # a failed validation makes the run inconclusive (exit 3) — unless an instance below produces a violation that
            # replays on the real code, which stands on its own (the validation vectors run the code under test too)
            pre_error = "model validation failed:\n%s" % traceback.format_exc()

    ctx = mp.get_context("fork")
    results = {}
    agg = dict(paths=0, aborted=0, queries=0, solver_time=0.0, proves=0, validated=0)
    encoded = set()
    samples = []
    errors = [pre_error] if pre_error else []
    second = {}
    violations = []
    notes = []
    budget = float(os.environ.get("VERIF_BUDGET_S", "1500" if tier == "quick" else "10800"))
    stop_reason = None
    ex = cf.ProcessPoolExecutor(max_workers=jobs, mp_context=ctx)
    try:
        futs = {}
        order = sorted(range(len(insts)), key=lambda i: -insts[i].params.get("cost", 1))
        for i in order:
            futs[ex.submit(explore_task, pid, tier, i, [], seed)] = (i, [])
        while futs and stop_reason is None:
            done, _ = cf.wait(list(futs), timeout=5, return_when=cf.FIRST_COMPLETED)
            if time.time() - t0 > budget:
                stop_reason = "global time budget of %ds exceeded with %d tasks unfinished (inconclusive)" % (budget, len(futs))
                errors.append(stop_reason)
                break
            for fu in done:
                i, prefix = futs.pop(fu)
                try:
                    r = fu.result()
                except BaseException as e:
                    errors.append("instance %s: worker failed: %r" % (insts[i].name, e))
                    continue
                for k in agg:
                    agg[k] += r[k]
                encoded.update(r["encoded"])
                for k2, v2 in r.get("second", {}).items():
                    if k2 == "disagreements":
                        errors.extend("second solver: " + d for d in v2)
                    else:
                        second[k2] = second.get(k2, 0) + v2
                samples.extend(r["samples"])
                notes.extend(r["notes"][:2])
                st = results.setdefault(i, dict(paths=0, proves=0, wall=0.0))
                st["paths"] += r["paths"]
                st["proves"] += r["proves"]
                st["wall"] += r["wall"]
                if r["error"]:
                    errors.append("instance %s: %s" % (insts[i].name, r["error"]))
                if r["violation"]:
                    violations.append((i, r["violation"]))
                    v = r["violation"]
                    if v["native"] in ("violated", "hang", "exception") and not insts[i].expect:
                        # a replayed violation decides the check: no need to finish the exploration
                        stop_reason = "violation"
                for q in r["new_tasks"]:
                    futs[ex.submit(explore_task, pid, tier, i, q, seed)] = (i, q)
    finally:
        procs = list(getattr(ex, "_processes", {}).values())
        if stop_reason is not None:
            for p in procs:
                try:
                    p.kill()
                except Exception:  # noqa: BLE001
                    pass
        ex.shutdown(wait=stop_reason is None, cancel_futures=True)

    # ---- verdicts
    exit_code = EXIT_OK
    out_lines = []
    known_open = {f["id"]: f for f in open_findings(pid)}
    reported_known = set()
    nviol = 0
    os.makedirs(os.path.join(VERIF, "replays", pid), exist_ok=True)
    for i, v in violations:
        inst = insts[i]
        h = hashlib.sha256(json.dumps([inst.name, v["inputs"]], sort_keys=True).encode()).hexdigest()[:12]
        rp = os.path.join(VERIF, "replays", pid, "%s.json" % h)
        json.dump(dict(property=pid, tier=tier, instance=inst.name, params=inst.params, what=v["what"],
                       inputs=v["inputs"], native=v["native"], native_detail=v["native_detail"]),
                  open(rp, "w"), indent=1, default=str)
        if v["what"].startswith("no termination") and v["native"] != "hang":
            errors.append("instance %s: unwinding bound exhausted but the real code terminates on the solver's inputs (native=%s): "
                          "bound too small — inconclusive, replay=%s" % (inst.name, v["native"], rp))
            continue
        confirmed = v["native"] in ("violated", "hang") or (
            v["native"] == "exception" and v["what"].startswith("uncaught")
            and v["native_detail"].split(":")[0] == v["what"][len("uncaught "):].split(":")[0]
        )
        if not confirmed:
            errors.append(
                "instance %s: counterexample did NOT reproduce on the real code (native=%s %s; symbolic: %s) — "
                "model or interpreter error, replay=%s" % (inst.name, v["native"], v["native_detail"], v["what"], rp)
            )
            continue
        if inst.expect and inst.expect in known_open:
            if inst.expect not in reported_known:
                reported_known.add(inst.expect)
                out_lines.append("KNOWN-FINDING: property=%s %s [%s] witness: %s (replay=%s)" % (
                    pid, known_open[inst.expect]["what"], inst.expect, v["what"], rp))
            continue
        nviol += 1
        out_lines.append("VIOLATION property=%s replay=%s" % (pid, rp))
        out_lines.append("  instance=%s what=%s native=%s %s" % (inst.name, v["what"], v["native"], v["native_detail"]))
        exit_code = EXIT_VIOLATION
    # vacuity: every instance must have reached at least one obligation on a feasible path
    for i, inst in enumerate(insts):
        st = results.get(i)
        if st is None or stop_reason is not None:
            continue
        if st["proves"] == 0 and not any(vi == i for vi, _ in violations) and not any(
            inst.name in e for e in errors
        ):
            errors.append("instance %s: vacuous — no obligation reached on any feasible path" % inst.name)
    if errors:
        for e in errors[:20]:
            out_lines.append("HARNESS-ERROR property=%s %s" % (pid, e))
        if exit_code == EXIT_OK:
            exit_code = EXIT_ERROR

    wall = time.time() - t0
    info = getattr(mod, "INFO", {})
    files = info.get("files", [])
    n_inst = len(results)
    ev = dict(
        property_id=pid,
        tier=tier,
        seed=seed,
        level="model_checking",
        coverage=dict(
            states=max(1, agg["paths"]),
            transitions=max(1, agg["queries"]),
            traces_validated_against_impl=agg["validated"] + (pre or {}).get("validated", 0),
            samples=(samples[:6] or [dict(instance=insts[0].name, params=insts[0].params)]) if insts else [],
            explanation=(
                "states = complete symbolic paths explored (each stands for every concrete input satisfying its path "
                "condition); transitions = SMT queries discharged (branch feasibility + proof obligations); "
                "traces_validated_against_impl = concrete runs of the real code under CPython compared with the "
                "interpreter/models (model validation vectors + solver models of sampled passing paths)."
            ),
            instances=n_inst,
            instances_total=len(insts),
            obligations=agg["proves"],
            aborted_paths=agg["aborted"],
            solver="z3 %s (Python API), QF_BV/UF" % _z3v(),
            solver_time_s=round(agg["solver_time"], 2),
            functions_encoded=sorted(encoded),
            source_sha256_16=source_hashes(files),
            bounds=info.get("bounds", {}).get(tier, info.get("bounds", "")),
            outside=info.get("outside", ""),
            stubs=info.get("stubs", []),
            model_validation=pre or {},
            instance_list=[dict(name=insts[i].name, paths=results[i]["paths"], obligations=results[i]["proves"],
                                wall_s=round(results[i]["wall"], 2))
                           for i in sorted(results, key=lambda i: -results[i]["wall"])][:300],
            known_findings_reported=sorted(reported_known),
            second_solver=(second or "not sampled in this tier (thorough only)"),
            exhaustive=False,
            jobs=jobs,
        ),
        assumptions=info.get("assumptions", []),
        wall_s=round(wall, 2),
        violations=nviol,
    )
    if exit_code == EXIT_ERROR:
        ev["coverage"]["harness_errors"] = errors[:20]
    evdir = os.environ.get("VERIF_EVIDENCE_DIR") or os.path.join(VERIF, "evidence")
    os.makedirs(evdir, exist_ok=True)
    json.dump(ev, open(os.path.join(evdir, "%s.json" % pid), "w"), indent=1, default=str)
    for l in out_lines:
        print(l)
    print("%s %s: instances=%d paths=%d queries=%d obligations=%d validated=%d solver=%.1fs wall=%.1fs exit=%d" % (
        pid, tier, n_inst, agg["paths"], agg["queries"], agg["proves"], ev["coverage"]["traces_validated_against_impl"],
        agg["solver_time"], wall, exit_code))
    return exit_code


def _z3v():
    try:
        import z3

        return z3.get_version_string()
    except Exception:
        return "?"
