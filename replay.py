import json
import os
import sys

sys.path.insert(0, os.environ.get("VERIF_REPO", "/repo"))
sys.path.insert(0, os.path.dirname(os.path.abspath(__file__)))
sys.setrecursionlimit(20000)
sys.set_int_max_str_digits(0)  # z3's Python API renders wide bit-vector constants through str(int)
import framework  # noqa: E402

r = json.load(open(sys.argv[1]))
mod, insts = framework._load(r["property"], r.get("tier", "quick"))
inst = [i for i in insts if i.name == r["instance"]][0]
status, detail = framework.run_native(inst, r["inputs"], inst.native_timeout)
print("instance:", inst.name)
print("inputs:", r["inputs"])
print("native result:", status, detail)
sys.exit(1 if status in ("violated", "hang", "exception") else 0)
