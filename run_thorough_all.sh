#!/bin/bash
# runs every check's thorough tier once, sequentially, printing one summary line each (used to size the thorough tier)
cd "$(dirname "$0")"
for c in ${@:-C20 C05 C06 C12 C16 C10 C11 C18 C19 C15 C09 C02 C03 C04 C14 C13 C17 C01 C08}; do
  s=$(date +%s)
  out=$(VERIF_BUDGET_S=${VERIF_BUDGET_S:-3000} timeout 3300 ./check $c --tier thorough 2>&1 | grep -v "^  File\|^    \|^Traceback" | tail -4 | cut -c1-400)
  echo "== $c exit-line: $(echo "$out" | tail -1) [$(( $(date +%s) - s )) s]"
  echo "$out" | grep "VIOLATION\|HARNESS-ERROR" | head -3
done
