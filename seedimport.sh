#!/bin/bash
# seedimport.sh <PID> — copy the deliverables of a seeding sub-agent (/tmp/seed-<PID>/_seed/<n>) to /verif/seeded/<PID>-<n>/
PID=$1
for n in 1 2 3; do
  S=/tmp/seed-$PID/_seed/$n
  [ -d "$S" ] || continue
  D=/verif/seeded/$PID-$n
  mkdir -p "$D"
  cp "$S/patch.diff" "$S/demo_test.py" "$S/notes.md" "$D/" 2>/dev/null
  echo "imported $D"
done
