"""regenerates MANIFEST.json from the table below (keeps it schema-valid at all times)"""
import json

TECH = "bounded symbolic execution of the repository's Python source (AST interpreter 'symx') + z3 QF_BV/UF: unsat of path∧¬property on every path; counterexamples replayed on CPython"

CHECKS = {
    "C20": dict(
        text="For every input within the stated bounds (xor data<=8/16 x key<=9/20 bytes, NetBIOS <=6/8 bytes x offsets 0..240, "
        "pack/unpack at widths 1,2,4,8 x byte orders x signedness over the whole value range incl. out-of-range values, URIs of <=5/6 "
        "arbitrary Unicode code points, bounded retries of random_stager_uri, find_staged_beacon gate on <=5/6 byte URIs) the solver "
        "shows the real utils/pcap code equals the reference definition; nothing is claimed outside the bounds."
        ' xor on long inputs (65 541 bytes; thorough also 8 197 / 131 077): pointwise specification at symbolic probe positions and around 4 KiB / 64 KiB multiples.',
        note="Trusted: z3; symx interpreter and its models of int/bytes/str builtins, re (sre-parser based matcher) and random "
        "(nondeterministic), each validated against CPython on every run; BeaconConfig.from_bytes replaced by a call recorder.",
        ref="§4 C20"),
    "C05": dict(
        text="For every plaintext length 0..33/64 with symbolic plaintext, AES key, HMAC key and IV: padding law, ciphertext == "
        "AES-CBC(key, iv, padded), signature == HMAC[:16] over the ciphertext, decrypt(encrypt(x)) == x+padding; a symbolic non-zero "
        "difference over the ciphertext, the signature or the HMAC key, truncations, and a missing HMAC key are rejected with "
        "ValueError before any AES decryption is attempted; client/server framing of <=3/4 packets splits back exactly. AES and HMAC "
        "are uninterpreted functions, so nothing is claimed about their strength."
        ' Also: 1..16 arbitrary bytes appended to an authentic ciphertext or signature are rejected before decryption.',
        note="Trusted: z3; symx; AES-CBC / HMAC-SHA256 as uninterpreted functions with their length/permutation contracts (checked "
        "against pycryptodome/hmac each run); assumption A-HMAC (distinct (key,msg) => tags differ) only in the ciphertext/key/"
        "truncation fault instances.",
        ref="§4 C05"),
    "C04": dict(
        text="For every client program of <=2/3 encoder steps x 4 terminations (plus selected multi-block programs with static "
        "decorations and initial requests) and every server-output program of <=2/3 steps, with symbolic payload (<=5/7 bytes), "
        "symbolic prepend/append arguments and a fresh symbolic mask per mask step: the library message equals the reference "
        "Malleable-C2 encoding (placement and bytes) and recover(transform(x)) == x. Known finding D8 (uri-append onto a non-empty "
        "URI) is excluded by its region and re-confirmed each run."
        " Static header steps with a symbolic 3-byte value (any byte, ': ' included) are placed under the name in front of the first ': '.",
        note="Trusted: z3; symx; bit-level base64 model (validated against CPython each run); random.getrandbits nondeterministic; "
        "the reference encoder written in the harness from the Malleable C2 definition. Library==reference plus library round trip "
        "gives both cross directions (reference-encoded messages decode with the library and vice versa).",
        ref="§4 C04"),
    "C02": dict(
        text="For every block of <=2/3 records with fully symbolic 16-bit index and type (pairwise distinct indices), value lengths "
        "{0,1,2,4}/{0..4,6} with symbolic bytes and every ending (00 00 + trailing bytes, end of data, truncated record): "
        "settings_tuple, setting_enums, max_setting_enum and the const/enum/name x raw/pretty x parse views are proved equal to an "
        "independent TLV walk (order, keys, u16be/u32be, raw bytes), index 36 named by type, unknown indices synthetic, pretty == raw "
        "where no pretty-printer exists, mappings read-only; 128-byte User-Agent continuation incl. the unterminated case."
        ' Continuations of 127..129 (thorough: up to 300) bytes are followed by a correctly decoded record.',
        note="Trusted: z3; symx; cstruct generated reader interpreted with modelled leaves; OrderedDict/MappingProxyType replaced by "
        "association-list models with symbolic keys; validity predicate: indices pairwise distinct; name/pretty views over a 10-value "
        "index domain.",
        ref="§4 C02"),
    "C12": dict(
        text="For ALL byte strings of length <=3/4 over the full 0..255 alphabet and length <=5/6 over the syntax-relevant alphabet the "
        "solver proves string_token_to_bytes(value_to_string(b)) == b, that the literal lexes as exactly one STRING token ending at "
        "its last character, and that it is printable ASCII; for every literal text of <=6/8 arbitrary Unicode characters accepted by "
        "the STRING rule the decoded bytes equal an independent decoder of the documented escapes (malformed \\x/\\u => ValueError).",
        note="Trusted: z3; symx; repr(bytes) model and the STRING lexer model (both validated exhaustively against CPython / the real "
        "regex of the loaded grammar each run). Undefined escapes are outside the property. Embedding in statements through the real "
        "lark parser is not solver-decided (covered structurally by C10/C11).",
        ref="§4 C12"),
    "C16": dict(
        text="The wire form is rendered by the harness from symbolic parts (method, origin-form path incl. ';', header names/values, "
        "status digits, reason, body over the full byte alphabet incl. CR LF CR LF and NUL) and the parsed tuple is proved equal to the "
        "parts for every value within the bounds; every first line of <=7/9 symbolic bytes that is not three whitespace-separated "
        "parts is proved to raise ValueError. Percent-decoding runs natively on 10 enumerated concrete queries (incl. non-ASCII decoded bytes; expected values from an independent decoder in the harness) (the solver proves only "
        "that exactly the part after '?' reaches parse_qsl)."
        ' Header values may hold a lone CR or LF.',
        note="Trusted: z3; symx; origin-form model of urlsplit/urlparse (validated against urllib each run); decimal int(str) model; "
        "parse_qsl native on concrete input.",
        ref="§4 C16"),
    "C03": dict(
        text="Each structured setting is observed through BeaconConfig(block).settings / the convenience properties on a block built by "
        "an independent encoder with symbolic arguments; the decoded value is proved equal to the encoded abstract value for every "
        "argument value within the bounds: transform and recover programs (<=2/3 steps, all 15 opcodes, symbolic argument bytes and "
        "32-bit lengths), execute lists (symbolic offsets and names), process-inject transforms, section tables, pivot frames, all 18 "
        "NUL-terminated string settings, hex settings, public-key digest argument, DNS idle address, BOF allocator, BeaconGate groups "
        "(set semantics, 7/9 symbolic flags at a time), kill date, scalars, domain/URI pairs.",
        note="Trusted: z3; symx; cstruct generated readers interpreted; SHA-256 uninterpreted; decimal/hex rendering model; "
        "ipaddress model. Legacy y/m/d kill date and empty DOMAINS are outside the claim (see DESIGN).",
        ref="§4 C03"),
    "C06": dict(
        text="With every metadata field symbolic at full width and info lengths at and around the PKCS#1 limit (1024- and 2048-bit "
        "moduli): encrypt then decrypt is field-for-field identical with size == len-8; over-long metadata raises ValueError; for any "
        "blob not produced by encrypt — the RSA primitive returning its sentinel, ValueError, or an arbitrary byte string of length "
        "0..117 with arbitrary content — only ValueError escapes (or a record consistent with the bytes); AES/HMAC keys are the halves "
        "of SHA-256(aes_rand).",
        note="Trusted: z3; symx; PKCS#1 v1.5 as a contract stub (checked against pycryptodome each run, real RSA in native replays); "
        "SHA-256 uninterpreted; cstruct reader interpreted, dumps as field concatenation (validated against cstruct each run).",
        ref="§4 C06"),
    "C15": dict(
        text="iter_find_needle: for every haystack (<=8/12 fully symbolic bytes), needle (1..3 / 1..4,7 symbolic bytes), read-buffer size "
        "1..5,8 / 1..9, start position and search limit, the reported offsets are proved to be exactly the true occurrences (ascending, "
        "unique, inside the searched region, complete up to the limit). ArtifactKit scanner: for every file of <=18/26 symbolic bytes "
        "the reported hits are exactly the offsets satisfying pos+16 == u32(header) with size/key/hints/payload fields proved "
        "byte-exact. Holds within these sizes only.",
        note="Trusted: z3; symx interpreter; BytesIO model (validated against io.BytesIO on random op sequences each run); the read "
        "buffer size is a parameter of the io namespace seen by utils (real value 8192 not explored with symbolic content).",
        ref="§4 C15"),
    "C09": dict(
        text="For every plaintext (<=9/13 symbolic bytes), nonce, stub and every history of <=2 (selected 3/4) read/seek/tell operations "
        "with symbolic sizes and offsets, each step of the real XorEncodedFile is proved equal to the semantics of io.BytesIO(plaintext) "
        "(bytes returned, tell(), seek() return value). Detection: PE scaffolds behind stubs with marker and/or size field are located "
        "at the end of the stub for every nonce; every file of <=10/12 symbolic bytes is rejected with ValueError."
        ' A stray ff ff ff in front of a true offset designated by marker and size field does not win.'
        ' Plaintexts whose size field has non-zero upper bytes (seeks/reads inside the first 8 bytes).',
        note="Trusted: z3; symx; BytesIO and cstruct-reader models; validity predicate of the detection harness: the size relation and "
        "the marker designate a single candidate offset; pe.find_mz_offset is cut to None for files < 64 bytes, justified by lemma "
        "obligations discharged in the same run.",
        ref="§4 C09"),
    "C14": dict(
        text="For an HTTPS configuration family with symbolic transform arguments and User-Agent bytes and enumerated server-output "
        "programs: after every operation of every ordered pair (quick) / triple (thorough, selected) over {the four settings views, "
        "C2Http with AES+HMAC keys / AES random / RSA private key, profile generation, client dry run, get, post and response "
        "transform+recover} the deep snapshot of all views, settings_tuple, config_block and metadata attributes is proved unchanged and "
        "the operation's observable result is proved equal to a reference taken on a freshly parsed configuration BEFORE the history ran "
        "(so results depending on earlier uses — through the object or through state shared between decoders — differ); families incl. "
        "duplicate setting indices and a BeaconGate vector; item assignment/deletion on "
        "the mappings raises TypeError. Object identity and aliasing are the real ones (the interpreter runs on real Python containers)."
        ' A configuration with static Host headers and a client run with explicit overrides (host_header, sleeptime, jitter, user agent) is included.'
        ' A process-inject execute-list family is included.',
        note="Trusted: z3; symx; SHA-256/AES/HMAC uninterpreted; RSA key import real (concrete DER); random nondeterministic; "
        "lark Tree real / tokens with symbolic text. Longer histories follow by induction from state preservation (stated).",
        ref="§4 C14"),
    "C19": dict(
        text="For every requested beacon id in [-2^40, 2^40] the client either raises ValueError or presents an even id in [0, 2^31) "
        "(ids in range are only rounded down) and carries it in the metadata; two clients with symbolic ids and equal presented ids get "
        "equal aes_rand/AES/HMAC keys (= halves of SHA-256(aes_rand), the keys handed to the decoder) whichever arguments are left to "
        "random defaults; every sleep interval lies in [sleeptime - sleeptime*jitter/100, sleeptime] for all u32 sleeptimes and jitters "
        "0..100 — decided over the rationals, not IEEE-754; metadata built from names with 3 (4) symbolic code points anywhere in "
        "Unicode around the 51-byte limit fits the configured RSA key; for every registry built from decorator / register_task / "
        "on_<command> / catch-all / on_catch_all / empty-task handlers and every sequence of <=2/3 tasks with symbolic commands, each "
        "task invokes exactly the registered handlers (catch-all only when none), each once, and each handler response is sent once."
        ' A raising handler does not keep the other handlers of the task, or later tasks, from being served once.',
        note="Trusted: z3 (QF_BV; LRA for the sleep band); symx; random as nondeterministic draws that are a function of (seed, draw "
        "number) after seed(); SHA-256 uninterpreted; PKCS#1 length contract; get_task/send_callback/time replaced by recorders in the "
        "dispatch harness. Unknown command ids (BeaconCommand(x) raises ValueError inside the loop) are outside the claim.",
        ref="§4 C19"),
    "C18": dict(
        text="For images built by the harness (x86/x64, several e_lfanew, 0..2/3 sections) with symbolic prepend, MZ magic, PE signature, "
        "compile and export stamps, raw section bytes, append bytes, symbolic section VirtualAddress/VirtualSize and a symbolic 32-bit "
        "export RVA, the solver proves: find_mz_offset equals the definition (smallest valid offset), architecture, compile stamp, export "
        "stamp (directory of the first section containing the RVA at every delta, None without one), magic_mz, magic_pe (NUL-stripped), "
        "stage prepend/append equal the image's. Version: for every 32-bit export stamp and 16-bit highest setting index the reported "
        "version is the table entry of the stamp when present and non-zero, else of the index, 'Unknown' otherwise, with tuple and date "
        "agreeing with the text; both tables are monotone by tuple and by date (SMT query over two symbolic keys)."
        ' Artifacts of a Guardrails-protected image (symbolic stamps, scaled patch areas) and of a Guardrails-protected XorEncoded stage (concrete scenario).',
        note="Trusted: z3; symx; BytesIO model and cstruct generated readers; re/strptime run natively on the concrete table strings; "
        "version strings parsed independently by the harness. A zero export TimeDateStamp counts as absent (stated interpretation).",
        ref="§4 C18"),
    "C08": dict(
        text="Every entry point named by the property (BeaconConfig.from_bytes/from_file incl. all-keys mode, BeaconConfig(block), "
        "XorEncodedFile.from_file, the six pe.find_* helpers, both Guardrails scanners, the ArtifactKit scanner, parse_raw_http) is run "
        "on (a) every input of 0..8/12 fully symbolic bytes, over a BytesIO model and an OS-file model, (b) PE scaffolds with one or two "
        "header fields fully symbolic (e_lfanew, Machine, NumberOfSections, SizeOfOptionalHeader, SizeOfHeaders, section VA/size/raw "
        "pointer/raw size, export RVA) and truncated at every structure boundary +-1, settings blocks with a symbolic record, the "
        "over-long User-Agent, Guardrails markers at the start of short files with symbolic guard settings and patch sizes scaled to "
        "24/16 bytes, XorEncoded stages with a symbolic size field and truncations: on every path the call returns or raises ValueError, "
        "and no loop exceeds an unwinding bound derived from the input size (an exhausted bound is confirmed by a native replay under a "
        "20 s wall-clock bound before it is reported)."
        " The PE artifact helpers are held to 'a result or None, no exception at all'.",
        note="Trusted: z3; symx; file models (BytesIO vs OS file on negative seeks); cstruct generated readers (concrete static structures "
        "parsed by the real cstruct); int(text) / UTF-8 decoding / urlsplit of out-of-model text and the n-gram key-candidate heuristic "
        "are contract stubs ('a value or ValueError' / an arbitrary candidate list). The pretty-printing views of a type-confused record "
        "are not entry points of the property (observation in DESIGN.md).",
        ref="§4 C08"),
    "C01": dict(
        text="H1: for EVERY raw file of 0..10/12 fully symbolic bytes, every read-buffer size in {2,5,8}/{1,2,3,5,8,13}, key configuration "
        "(defaults, caller list of two symbolic keys, all-keys mode on 7..8 bytes) and both file models, BeaconConfig.from_file returns the "
        "first candidate in (key priority, file offset) order — xorkey, xorencoded, config_block (un-XORed bytes up to 4096/EOF) and settings — "
        "or raises ValueError exactly when no tried key has a candidate. H4: two blocks under two tried keys in both file orders. H2: with "
        "the real 8192-byte buffer, a block at a symbolic offset at/around both buffer boundaries, offset 0/1 and end of file, keys "
        "69/00/a7(+2e), symbolic neighbour bytes and protocol value. H3: the block inside a PE section, raw and as XorEncoded stage (also: block key only "
        "reached by the all-keys retry; marker-less stub with a nonce containing ff ff ff), with architecture and compile stamp of the embedding image."
        " Key mode 'caller keys a5 5a + all_xor_keys' on every 7-byte file."
        ' H3 includes a XorEncoded stage followed by an un-encoded block.',
        note="Trusted: z3; symx; file models; cstruct readers; pe.find_mz_offset replaced by None for files < 64 bytes (lemma instances in the "
        "same check). In all-keys mode the order of the 253 left-over keys is implementation-defined (the result must be a true first "
        "candidate of its key; ValueError only if no key at all has one). Settings are compared with BeaconConfig(block), whose decoding "
        "is C02's subject.",
        ref="§4 C01"),
    "C17": dict(
        text="With the patch areas scaled through the module namespace (24/32 and 20..56 bytes) and a symbolic environmental key (2..3/6 "
        "bytes), protocol value and option byte, for every non-empty subset of the four guard options followed by the checksum setting, "
        "lead offsets 0/2: (recovery) with the true key among the candidate keys — behind a wrong candidate that fails the checksum — BeaconConfig.from_file "
        "returns the original configuration byte for byte, a key that unmasks it, the guard settings in order with their values, the stored "
        "checksum and both offsets; (safety) with ARBITRARY candidate keys and an arbitrary stored checksum the scanner extracts exactly the "
        "stored checksum and reports a configuration only if payload_checksum(block)+1 equals it, otherwise the guard metadata alone; "
        "payload_checksum equals the weighted byte sum modulo 99999999."
        ' The real n-gram key heuristic (no stub) is interpreted at the real 6144-byte patch size with a symbolic environmental key of 3 bytes (thorough 2..5) on zero-padded configurations with 16 / 2100 / 2900 bytes of settings, and with the longest documented key (256 bytes; 768-byte area): the true key is offered.',
        note="Trusted: z3; symx; find_xor_key_candidates (n-gram frequency heuristic over collections.Counter) is replaced by a candidate "
        "list — that the heuristic ranks the true key for every input is statistical and NOT claimed (it is run for real, at the real "
        "6144/2048 sizes, on concrete validation vectors each run). Validity predicate: the file contains no default-key header, no second "
        "guard marker (except the planted look-alike of the dedicated scenarios), and the wrong candidate does not collide on the checksum "
        "(the weighted sum is the only acceptance criterion: a colliding key is legitimately accepted).",
        ref="§4 C17"),
    "C10": dict(
        text="(1) z3 decides over the rule table of the loaded grammar (246 productions after EBNF expansion, symbolic production index) that "
        "every production reachable from `start` is regenerated with its own keyword sequence, i.e. no (tree label, kept-children shape) "
        "group — the key under which lark's tree matcher keeps only the first production — mixes two token sequences; a witness is "
        "turned into a sentence and replayed through the real from_text/as_text. (3) as_text's layout generator is interpreted over the "
        "model token stream of 9/14 statement and block skeletons whose string literals hold 1..3/4 symbolic characters (any valid STRING "
        "body): the text re-tokenises to the same token sequence with every literal preserved character for character."
        ' from_text hands every statement with its string literal (0..3 symbolic code points) to the parser unchanged.',
        note="Trusted: z3; symx; the grammar-table model of lark (parser, contextual lexer, Earley tree matcher are third party and not "
        "encoded) — validated each run by pushing a minimal sentence for EVERY reachable production through the real parser, "
        "reconstructor and lexer and comparing with the model's prediction (a disagreement is a harness error); lexer model for the "
        "re-tokenisation. The production '# dns_resolver' can never be lexed (comment) and is outside 'accepted by the parser'.",
        ref="§4 C10"),
    "C11": dict(
        text="as_dict is interpreted over the grammar-table token stream of 12 profile skeletons covering every block kind, options, pairs, "
        "data-transform / execute / BeaconGate lists, named and \"default\" variants, repeated options and empty blocks, with 1..2/3 "
        "symbolic characters (any valid STRING body) in every literal: key set, key order, value order and every value (raw text for "
        "options and pairs, decoded bytes for list blocks) are proved equal to an oracle computed from the tree. Profiles built through "
        "the builder API with symbolic values give the expected tree, conform to the grammar and give the oracle dictionary. For every "
        "history access;modify(;modify);access over {set_option, set_config_block, set_non_empty_config_block, direct tree edit} the "
        "later view equals the oracle of the modified profile.",
        note="Trusted: z3; symx; the grammar-table model of lark (validated in C10 on every production and here on every skeleton against "
        "the real as_dict/as_text/from_text); hash(Tree) as a structural key (collisions assumed away). Literals with \\x/\\u or undefined "
        "escapes inside list blocks are outside (C12). The oracle is silent on stage.transform-x86/x64 and process-inject.transform-x64.",
        ref="§4 C11"),
    "C13": dict(
        text="For configuration families built by an independent encoder — http (two program variants; one transform argument of 0..2/3 "
        "symbolic bytes over the full byte range at a time; symbolic printable User-Agent / header characters), process-inject (execute "
        "lists over all 8 executors incl. offsets, transforms with symbolic bytes, permissions, allocators), stage (BeaconGate vectors with "
        "3/5 symbolic flags), dns, empty — C2Profile.from_beacon_config raises nothing, its tree conforms to the grammar-table model, "
        "every emitted literal is exactly one STRING token, the text produced by as_text's layout step re-tokenises to the tree's tokens, "
        "and the dictionary computed by the interpreted as_dict states sleep time, jitter, User-Agent, URIs, verbs, static "
        "headers/parameters, the http-get/http-post client steps with byte-exact arguments, the server-output step kinds and lengths, "
        "and the process-inject / stage / DNS options; empty blocks are omitted. Known finding D14a (text value containing a backslash) "
        "is excluded by its region and re-confirmed each run."
        ' The length of a server-output append is symbolic (0..4).',
        note="Trusted: z3; symx; grammar-table model of lark (validated in C10/C11 and by native replays through the real "
        "as_text/from_text); SHA-256 uninterpreted. The ORDER of server-output steps is not asserted either way (the configuration stores "
        "a recover program).",
        ref="§4 C13"),
    "C07": dict(
        text="(i) Routing: for symbolic methods (<= 4 bytes) and URIs (<= 6/11 bytes) against three configurations (one with equal get/post "
        "verbs) the transform chosen is the get transform iff verb and a get-URI prefix match, else the post transform iff verb and submit "
        "URI prefix match, responses go to the response transform, anything else raises ValueError. (ii) Sessions: the library's own "
        "HttpBeaconClient (get_task / send_callback interpreted, httpx.request replaced by a team-server peer) produces every history of "
        "<= 3/4 steps over {check-in without task, check-in with task, callback} plus a POST carrying two callbacks, for 4/5 configurations "
        "and the three key-material variants; task data, callback data (0..3 symbolic bytes), callback ids symbolic. A fresh C2Http decodes "
        "the recorded messages (as objects, and through the raw wire form + parse_raw_http for one configuration / all in thorough) to "
        "exactly the metadata, task and callback packets sent, in order, and the client itself decodes the task it was sent."
        ' Key material RSA key + only one of the two session keys decodes as well.'
        ' A configuration with zero-length append/prepend arguments is included.',
        note="Trusted: z3; symx; AES-CBC/HMAC/SHA-256 uninterpreted with their contracts, PKCS#1 contract stub (C05/C06 decide the crypto "
        "framing itself); the peer encodes task data with the library's server-output transform (transform == reference encoding is C04's "
        "result); base64 decode-of-encode provenance shortcut (a theorem of the bit-level model, validated each run in C04); one fixed "
        "Windows version instead of a random choice of seven.",
        ref="§4 C07"),
}

NA = {}
ALL = ["C%02d" % i for i in range(1, 21)]
for pid in ALL:
    if pid not in CHECKS:
        NA[pid] = "check not built yet in this session (planned, see DESIGN.md §4 %s)" % pid

m = dict(
    version=1,
    setup_cmd="./bootstrap.sh",
    hooks=dict(
        guard="FOX_IT_DISSECT_COBALTSTRIKE_VERIF",
        enable="none needed: the symbolic interpreter parameterises buffer sizes, patch sizes and third-party entry points from outside; no hook commits exist in /repo",
        baseline_off_cmd="cd /repo && /venv/bin/python -m pytest -ra -q -p no:cacheprovider --timeout=900 --continue-on-collection-errors",
        source_commits=[],
        add_only=True,
    ),
    engines=[dict(name="symx", path="symx/", serves_properties=sorted(CHECKS),
                  kind_free_text="tree-walking symbolic interpreter over the repo's current Python source (ast), z3 bit-vector back end, "
                  "DFS over decision prefixes, native replay of counterexamples")],
    checks=[
        dict(property_id=pid, quick_cmd="./check %s --tier quick" % pid, thorough_cmd="./check %s --tier thorough" % pid,
             evidence_file="evidence/%s.json" % pid, replay_cmd_template="./replay {path}", engine="symx",
             level_claimed=dict(category="model_checking", text=c["text"], design_ref=c["ref"]), level_note=c["note"],
             technique=TECH)
        for pid, c in sorted(CHECKS.items())
    ],
    notes="Exit codes of every check: 0 pass within bounds, 1 replayed violation (VIOLATION line), 3 harness error / inconclusive. "
    "known_findings.json lists genuine defects (open / fixed).",
    not_applicable=[dict(property_id=p, reason=r) for p, r in sorted(NA.items())],
)
json.dump(m, open("MANIFEST.json", "w"), indent=1)
print("checks:", sorted(CHECKS), "n/a:", len(NA))
