#!/bin/bash
# runs every check's quick tier once on the unchanged tree and prints one line each
cd "$(dirname "$0")"
for c in ${@:-C01 C02 C03 C04 C05 C06 C07 C08 C09 C10 C11 C12 C13 C14 C15 C16 C17 C18 C19 C20}; do
  s=$(date +%s)
  out=$(timeout 1700 ./check $c --tier quick 2>&1 | grep -v "^  File\|^    \|^Traceback" | tail -6 | cut -c1-300)
  echo "== $(echo "$out" | tail -1) [$(( $(date +%s) - s )) s]"
  echo "$out" | grep "VIOLATION\|HARNESS-ERROR" | head -3
done
