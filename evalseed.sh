#!/bin/bash
# evalseed.sh <PID> <patch.diff> <demo_test.py> [tier] — confirm a seeded change in a scratch worktree (suite passes, demo fails
# with / passes without), then run the /verif check against it. Prints a one-line verdict. Nothing under /repo is modified.
PID=$1; P=$(readlink -f "$2"); DEMO=$(readlink -f "$3"); TIER=${4:-quick}
W=$(mktemp -d /tmp/evalseed.XXXXXX); rmdir "$W"
git -C /repo worktree add -q --detach "$W" HEAD || exit 2
cleanup() { git -C /repo worktree remove --force "$W" >/dev/null 2>&1; rm -rf "$W"; }
trap cleanup EXIT
cd "$W"
PYTHONPATH="$W" /venv/bin/python -m pytest -q -p no:cacheprovider "$DEMO" >/tmp/evalseed.base.log 2>&1; BASE=$?
git apply "$P" || { echo "SEED $PID: patch does not apply"; exit 2; }
PYTHONPATH="$W" /venv/bin/python -m pytest -q -p no:cacheprovider "$DEMO" >/tmp/evalseed.mut.log 2>&1; MUT=$?
PYTHONPATH="$W" /venv/bin/python -m pytest -q -p no:cacheprovider --timeout=900 >/tmp/evalseed.suite.log 2>&1; SUITE=$?
SUITELINE=$(tail -1 /tmp/evalseed.suite.log)
cd /verif
VERIF_REPO="$W" VERIF_EVIDENCE_DIR="$W/.evidence" ./check "$PID" --tier "$TIER" > /tmp/evalseed.check.log 2>&1; CHK=$?
echo "SEED $PID $(basename $P): demo_without=$BASE(0 expected) demo_with=$MUT(nonzero expected) suite=$SUITE [$SUITELINE] check_exit=$CHK"
grep -m3 "VIOLATION\|what=" /tmp/evalseed.check.log | cut -c1-300
[ $CHK -eq 3 ] && grep -m2 "HARNESS-ERROR" /tmp/evalseed.check.log | cut -c1-300
exit 0
